CONSTANTS
  Fns = {1, 2}
  Hs = {1}
  NV = 5
  Size <- MCSize
  Bytes <- MCBytes
  Weak <- MCWeak
  Budget = 300
  MemSize = 16
  Ovrs = {0, 1}
  MKs = {1}
  SepMeta = FALSE
  MaxVer = 3
  MaxMid = 4
  KF_OversizeStale = FALSE
  KF_StaleRef = FALSE
  KF_MetaByObject = FALSE
INIT Init
NEXT Next
VIEW view
INVARIANT MonOk
INVARIANT DictAbstraction
INVARIANT CacheCoherent
INVARIANT RefsCoherent
INVARIANT UsageIsSum
INVARIANT UsageWithinBudget
INVARIANT NoOversizeResident
INVARIANT LruIsPermutationOfResident
INVARIANT CasIntegrity
INVARIANT CasDedup
INVARIANT LinksPointToObjects
INVARIANT ZeroAfterForgetAll
PROPERTY ReferencedObjectsImmutable
PROPERTY ReadOnlyWritesNothing
CHECK_DEADLOCK FALSE
CONSTRAINT Depth6
