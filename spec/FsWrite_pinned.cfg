CONSTANTS
  Fns = {"f", "g"}
  MaxCalls = 4
  MaxFaults = 2
  MaxForgets = 1
  FixedReader = FALSE
  LinkBeforeClose = FALSE
INIT Init
NEXT Next
INVARIANT Recovers
INVARIANT PointerImpliesObject
INVARIANT NoPoisonedMemento
CHECK_DEADLOCK FALSE
