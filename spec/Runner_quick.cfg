CONSTANTS
  Progs <- MCProgs
  AMax = 1
  MaxOps = 2
  BatchArgs <- MCBatchArgs
INIT Init
NEXT Next
INVARIANT MonOk
INVARIANT ProvenanceExact
INVARIANT StackDiscipline
CHECK_DEADLOCK FALSE
