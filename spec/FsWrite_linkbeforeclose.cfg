CONSTANTS
  Fns = {"f", "g"}
  MaxCalls = 4
  MaxFaults = 2
  MaxForgets = 1
  FixedReader = TRUE
  LinkBeforeClose = TRUE
INIT Init
NEXT Next
INVARIANT NeverRaises
CHECK_DEADLOCK FALSE
