---------------------------- MODULE CrashSafeMon ----------------------------
(* Property monitor for C08.  One trace = one sequence of function calls against   *)
(* one filesystem store during which filesystem faults are injected into some       *)
(* calls.  Events:                                                                   *)
(*   Call(k, ok, crashed, exc, bodies, faulted)   k = "fn/arg"; ok = outcome equals   *)
(*        the un-memoized outcome; bodies = <<key, count>> pairs of bodies executed   *)
(*   Aux(what, exc, faulted, crashed)             listing / forget                    *)
(* The monitor remembers for which calls a write has since completed cleanly (a call   *)
(* that ran to completion with no fault injected): those must be served from the store *)
(* by the next call.                                                                   *)
EXTENDS Naturals, Sequences, FiniteSets, TLC

KInit(cfg) == [clean |-> {}]
SeqToSet(s) == {s[i] : i \in 1..Len(s)}
BodiesOf(e, k) == LET m == {p \in SeqToSet(e.bodies) : p[1] = k} IN
                  IF m = {} THEN 0 ELSE (CHOOSE p \in m : TRUE)[2]

Clauses(st, e) ==
  CASE e.op = "Call" -> <<
         <<"call_returns_the_correct_value", (~e.crashed) => e.ok>>,
         <<"call_raises_nothing", (~e.crashed) => e.exc = "">>,
         <<"body_runs_at_most_once_per_call", \A i \in 1..Len(e.bodies) : e.bodies[i][2] <= 1>>,
         <<"served_from_store_once_a_write_succeeded", e.k \in st.clean => BodiesOf(e, e.k) = 0>>,
         \* whole-store scan after the call: no content key that exists (complete pointer) holds bytes of another hash
         <<"no_existing_content_key_holds_foreign_bytes", e.poisoned = <<>> >> >>
    [] e.op = "Aux" -> <<>>       \* listings / forgets are part of the history, not judged by C08
    [] OTHER -> << <<"known_event", FALSE>> >>

KOk(st, e)  == \A i \in 1..Len(Clauses(st, e)) : Clauses(st, e)[i][2]
KWhy(st, e) == {Clauses(st, e)[i][1] : i \in {j \in 1..Len(Clauses(st, e)) : ~Clauses(st, e)[j][2]}}
KStep(st, e) ==
  CASE e.op = "Call" /\ ~e.faulted /\ ~e.crashed -> [clean |-> st.clean \cup {e.k}]
    [] e.op = "Call" /\ (e.faulted \/ e.crashed) -> [clean |-> st.clean \ {e.k}]
    [] e.op = "Aux" /\ e.what = "forget" -> [clean |-> {}]
    [] OTHER -> st
=============================================================================
