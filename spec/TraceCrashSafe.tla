---- MODULE TraceCrashSafe ----
EXTENDS CrashSafeMon
VARIABLES tid, l, st
INSTANCE TraceCheck WITH MInit <- KInit, MOk <- KOk, MStep <- KStep, MWhy <- KWhy
====
