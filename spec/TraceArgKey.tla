---- MODULE TraceArgKey ----
EXTENDS ArgKeyMon
VARIABLES tid, l, st
INSTANCE TraceCheck WITH MInit <- AInit, MOk <- AOk, MStep <- AStep, MWhy <- AWhy
====
