CONSTANTS
  Clusters <- MCClusters
  Modules <- MCModules
  Functions <- MCFunctions
  Versions <- MCVersions
INIT Init
NEXT Next
INVARIANT SplitsBack
CHECK_DEADLOCK FALSE
