---------------------------- MODULE TraceThreads ----------------------------
(* Trace validation of recorded executions of REAL threads (run under the        *)
(* deterministic scheduler of the harness, one managed thread at a time, so the    *)
(* recorded order is the real order) against the mechanism specification Threads:   *)
(* every event is an OBSERVATION that must hold of the specification's state at     *)
(* that point, all steps of the specification are silent.                            *)
(*   gstart(t) / gend(t, found)   storage.get_mementos for the call of thread t       *)
(*                                begins / returned (bulk pre-check, or re-check        *)
(*                                inside the mutex)                                      *)
(*   rstart(t) / rend(t)          storage.read_result begins / returned                  *)
(*   lock(t) / unlock(t)          the per-call mutex was acquired / released               *)
(*   body(t)                      the function body was entered                             *)
(*   iend(t, ret)                 storage.is_memoized returned ret                           *)
(*   mstart(t) / mend(t)          storage.memoize begins / returned                          *)
(*   end(t)                       the call of thread t returned its value                     *)
(*   quiesce(lru, ent, usage)     all threads done: the cache as the real object shows it      *)
(* Between two events any thread may take any steps of Threads (the statements of the         *)
(* cache methods, the lock of the cache, the single steps that stand for reading and            *)
(* writing the store).  One TLC run checks many traces of one configuration (number of          *)
(* threads, budget, sizes: literal constants written by the harness); register tid keeps         *)
(* the longest explained prefix; a trace that is explained is not explored further.               *)
EXTENDS Threads, Json, IOUtils

VARIABLES tid, l

NoSet == {}
DocReg == 1000000
LoadDoc == TLCSet(DocReg, JsonDeserialize(IOEnv.TRACE_FILE))
Traces == TLCGet(DocReg).traces
Evs == Traces[tid].ev
Ev == Evs[l + 1]
Cfg == Traces[tid].cfg
SeqSet(s) == {s[i] : i \in 1..Len(s)}
KindOf(c, k) == IF \E i \in 1..Len(c.ent) : c.ent[i].k = k
                THEN (CHOOSE i \in 1..Len(c.ent) : c.ent[i].k = k) ELSE 0
EntOf(c, k)  == IF KindOf(c, k) = 0 THEN "none" ELSE c.ent[KindOf(c, k)].kind
SizeOf(c, k) == IF KindOf(c, k) = 0 THEN 0 ELSE c.ent[KindOf(c, k)].size

TraceInit ==
    /\ LoadDoc
    /\ tid \in 1..Len(Traces) /\ l = 0
    /\ want = [t \in Threads |-> Cfg.want[t]]
    /\ warm = [store |-> SeqSet(Cfg.store), cache |-> Cfg.lru]
    /\ disk = [k \in Keys |-> k \in SeqSet(Cfg.store)]
    /\ ent = [k \in Keys |-> EntOf(Cfg, k)]
    /\ esize = [k \in Keys |-> SizeOf(Cfg, k)]
    /\ lru = Cfg.lru
    /\ usage = Cfg.usage
    /\ cachelock = 0
    /\ mutex = [k \in Keys |-> 0]
    /\ exec = [k \in Keys |-> 0]
    /\ found = [t \in Threads |-> FALSE]
    /\ memoized = [t \in Threads |-> FALSE]
    /\ outcome = [t \in Threads |-> "running"]
    /\ ek = [self \in ProcSet |-> defaultInitValue]
    /\ pk = [self \in ProcSet |-> defaultInitValue]
    /\ psize = [self \in ProcSet |-> defaultInitValue]
    /\ pkind = [self \in ProcSet |-> defaultInitValue]
    /\ victim = [self \in ProcSet |-> 0]
    /\ gk = [self \in ProcSet |-> defaultInitValue]
    /\ rk = [self \in ProcSet |-> defaultInitValue]
    /\ stack = [self \in ProcSet |-> <<>>]
    /\ pc = [self \in ProcSet |-> "B1"]
    /\ TLCSet(tid, 0)

Holds(e) ==
  LET t == e.t IN
  CASE e.k = "gstart" -> pc[t] \in {"B1", "M2"}
    [] e.k = "gend"   -> pc[t] = "G4" /\ found[t] = e.found
    [] e.k = "rstart" -> pc[t] \in {"B2", "M3"} /\ found[t]
    [] e.k = "rend"   -> pc[t] \in {"R3r", "R8"}
    [] e.k = "lock"   -> pc[t] = "M2" /\ mutex[want[t]] = t
    [] e.k = "body"   -> pc[t] = "M6"
    [] e.k = "iend"   -> pc[t] = "M7" /\ memoized[t] = e.ret
    [] e.k = "mstart" -> pc[t] = "M7" /\ ~memoized[t]
    [] e.k = "mend"   -> pc[t] = "M9" /\ disk[want[t]]
    [] e.k = "unlock" -> pc[t] \in {"Fin", "Done"} /\ mutex[want[t]] # t
    [] e.k = "end"    -> pc[t] \in {"Fin", "Done"} /\ outcome[t] = "value"
    [] e.k = "quiesce" -> /\ AllDone /\ lru = e.lru /\ usage = e.usage
                          /\ \A k \in Keys : ent[k] = EntOf(e, k) /\ esize[k] = SizeOf(e, k)
    [] OTHER -> FALSE

Observe ==
    /\ l < Len(Evs) /\ Holds(Ev)
    /\ l' = l + 1 /\ UNCHANGED <<vars, tid>>
    /\ IF TLCGet(tid) < l + 1 THEN TLCSet(tid, l + 1) ELSE TRUE

TraceNext == Observe \/ (Next /\ UNCHANGED <<tid, l>>)

\* a trace that has been explained completely is not explored any further
Open == TLCGet(tid) < Len(Evs)

TraceSpec == TraceInit /\ [][TraceNext]_<<vars, tid, l>>

TraceReport ==
    /\ \A i \in 1..Len(Traces) :
          \/ TLCGet(i) = Len(Traces[i].ev)
          \/ PrintT(<<"REJECT", i, TLCGet(i), {Traces[i].ev[TLCGet(i) + 1].k}, 0>>)
    /\ PrintT(<<"STATS", Len(Traces), 0, Cardinality({i \in 1..Len(Traces) : TLCGet(i) # Len(Traces[i].ev)})>>)
=============================================================================
