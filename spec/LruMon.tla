------------------------------ MODULE LruMon ------------------------------
(* Property monitor for C06: the memory cache is bounded, least-recently-used    *)
(* and keeps honest accounts.  Every event carries the projection of the cache    *)
(* after the operation (proj.lru: recency order, least recent first; proj.ent:    *)
(* resident entries [k, size, hasv]; proj.usage) and the number of data-object    *)
(* reads that reached the underlying store (reads).  Sizes expected for values    *)
(* (e.size) are computed by the harness, not by the cache.  The monitor state is  *)
(* the previous projection; it constrains how one projection may follow another.  *)
EXTENDS Naturals, Sequences, FiniteSets, TLC

SeqToSet(s) == {s[i] : i \in 1..Len(s)}
RECURSIVE SumSizes(_)
SumSizes(s) == IF s = <<>> THEN 0 ELSE Head(s).size + SumSizes(Tail(s))
RECURSIVE Restrict(_, _)
Restrict(s, S) == IF s = <<>> THEN <<>>
                  ELSE IF Head(s) \in S THEN <<Head(s)>> \o Restrict(Tail(s), S) ELSE Restrict(Tail(s), S)
Prefix(s, n) == SubSeq(s, 1, n)
\* (total: 0 when x does not occur -- a projection may be inconsistent, the monitor must still give a verdict)
IndexOf(s, x) == IF \E i \in 1..Len(s) : s[i] = x THEN CHOOSE i \in 1..Len(s) : s[i] = x ELSE 0
\* a sequence without its earlier duplicates (the last occurrence of every element stays)
DedupLast(s) == LET idx == {i \in 1..Len(s) : \A j \in (i + 1)..Len(s) : s[j] # s[i]} IN
                [n \in 1..Cardinality(idx) |-> s[CHOOSE i \in idx : Cardinality({j \in idx : j < i}) = n - 1]]
MostRecent(lru, k) == Len(lru) > 0 /\ lru[Len(lru)] = k

LInit(cfg) == [budget |-> cfg.budget, lru |-> <<>>, ent |-> <<>>, usage |-> 0]

EntKeys(ent) == {ent[i].k : i \in 1..Len(ent)}
EntOf(ent, k) == ent[CHOOSE i \in 1..Len(ent) : ent[i].k = k]
RECURSIVE SizeOfKeys(_, _)
SizeOfKeys(ent, S) == IF S = {} THEN 0 ELSE LET k == CHOOSE x \in S : TRUE IN EntOf(ent, k).size + SizeOfKeys(ent, S \ {k})
Resident(st, k) == k \in EntKeys(st.ent)
HasValue(ent, k) == k \in EntKeys(ent) /\ EntOf(ent, k).hasv

Touched(e) ==
  \* (reading custom metadata may look the call's memento up: metadata kept with the data is found through it)
  CASE e.op \in {"Memoize", "ReadResult", "IsMemoized", "ForgetCall", "ReadMetadata"} -> {<<e.f, e.h>>}
    [] e.op \in {"GetMementos", "IsAllMemoized"}                       -> SeqToSet(e.keys)
    [] OTHER                                                            -> {}

\* keys an operation is entitled to drop from the cache regardless of recency
Scope(st, e) ==
  CASE e.ro -> {}
    [] e.op = "ForgetCall"       -> {<<e.f, e.h>>}
    [] e.op = "ForgetFunction"   -> {k \in EntKeys(st.ent) : k[1] = e.f}
    [] e.op = "ForgetEverything" -> EntKeys(st.ent)
    [] OTHER                     -> {}

IsPut(e) == e.op \in {"Memoize", "ReadResult", "GetMementos", "ReadMetadata"}
RoWrites == {"Memoize", "ForgetCall", "ForgetFunction", "ForgetEverything", "WriteMetadata"}
Inert(e) == \/ e.op \in {"ListFunctions", "ListMementos", "WriteMetadata"}
            \/ e.ro /\ e.op \in RoWrites

Clauses(st, e) ==
  LET p     == e.proj
      pre   == EntKeys(st.ent)
      post  == EntKeys(p.ent)
      B     == st.budget
      T     == Touched(e) \cup Scope(st, e)
      surv  == pre \ T                       \* entries the operation has no business with
      P     == Restrict(st.lru, surv)        \* their recency order before
      E     == surv \ post                   \* collateral evictions
      k     == <<e.f, e.h>>
      general == <<
        <<"usage_equals_sum_of_resident_sizes", p.usage = SumSizes(p.ent)>>,
        <<"usage_within_budget", p.usage <= B>>,
        <<"no_entry_larger_than_budget", \A i \in 1..Len(p.ent) : p.ent[i].size <= B>>,
        <<"recency_list_is_permutation_of_residents",
            Len(p.lru) = Cardinality(SeqToSet(p.lru)) /\ SeqToSet(p.lru) = post /\ Len(p.ent) = Cardinality(post)>>,
        <<"only_touched_keys_appear", post \subseteq pre \cup T>>,
        <<"untouched_entries_unchanged", \A x \in (post \cap surv) : EntOf(p.ent, x) = EntOf(st.ent, x)>>,
        <<"evicted_are_the_least_recently_used", Cardinality(E) <= Len(P) /\ E = SeqToSet(Prefix(P, Cardinality(E)))>>,
        \* (an operation that puts several entries - a bulk look-up - may, for a later one of them, also drop an entry it touched
        \*  itself earlier: what that entry occupied counts as room that was needed when the last bystander went)
        <<"evictions_only_when_room_is_needed",
            E # {} => /\ IsPut(e)
                      /\ Cardinality(E) <= Len(P)
                      /\ LET x == P[Cardinality(E)] IN
                         p.usage + EntOf(st.ent, x).size + SizeOfKeys(st.ent, (pre \cap T) \ post) > B>>,
        <<"relative_recency_of_untouched_preserved", Restrict(p.lru, surv) = Restrict(P, post)>>,
        <<"new_entries_are_most_recent",
            \A n \in post \ pre : \A s \in post \cap surv : IndexOf(p.lru, n) > 0 /\ IndexOf(p.lru, s) < IndexOf(p.lru, n)>> >>
      specific ==
        CASE e.op = "Memoize" /\ e.exc = "" /\ ~e.ro -> <<
               <<"written_value_resident_if_it_fits",
                   e.size <= B => (k \in post /\ EntOf(p.ent, k).size = e.size /\ EntOf(p.ent, k).hasv)>>,
               <<"oversize_value_not_resident_nor_a_stale_one_for_its_key", e.size > B => ~HasValue(p.ent, k)>>,
               <<"used_key_is_most_recent", k \in post => MostRecent(p.lru, k)>> >>
          [] e.op = "ReadResult" /\ e.exc = "" -> <<
               <<"resident_value_served_without_store_read", HasValue(st.ent, k) => e.reads = 0>>,
               <<"hit_leaves_entry_unchanged", HasValue(st.ent, k) => (k \in post /\ EntOf(p.ent, k) = EntOf(st.ent, k))>>,
               <<"read_value_resident_if_it_fits",
                   (~HasValue(st.ent, k) /\ e.reads > 0 /\ e.size <= B /\ e.cacheable) =>
                        (k \in post /\ EntOf(p.ent, k).size = e.size /\ EntOf(p.ent, k).hasv)>>,
               <<"oversize_value_not_resident_nor_a_stale_one_for_its_key", e.size > B => ~HasValue(p.ent, k)>>,
               <<"used_key_is_most_recent", (k \in post /\ e.size <= B) => MostRecent(p.lru, k)>> >>
          [] e.op = "IsMemoized" /\ e.exc = "" -> <<
               <<"query_does_not_change_residency", post = pre /\ E = {}>>,
               <<"used_key_is_most_recent", k \in post => MostRecent(p.lru, k)>> >>
          [] e.op = "IsAllMemoized" /\ e.exc = "" -> <<
               <<"query_does_not_change_residency", post = pre /\ E = {}>>,
               \* every listed call that is resident counts as used, in the order of the list (storage_base.py: is_all_memoized asks
               \* is_memoized for EVERY element, which marks the entry as used)
               <<"every_listed_resident_key_is_marked_used_in_order",
                   LET R == DedupLast(SelectSeq(e.keys, LAMBDA k2 : k2 \in post)) IN
                   Len(p.lru) >= Len(R) /\ SubSeq(p.lru, Len(p.lru) - Len(R) + 1, Len(p.lru)) = R>> >>
          [] e.op \in {"ForgetCall", "ForgetFunction", "ForgetEverything"} /\ e.exc = "" /\ ~e.ro -> <<
               <<"forgotten_scope_not_resident", Scope(st, e) \cap post = {}>>,
               <<"forget_evicts_nothing_else", E = {}>> >>
          [] Inert(e) -> <<
               <<"operation_leaves_cache_alone", p.lru = st.lru /\ p.usage = st.usage /\ post = pre>> >>
          [] OTHER -> <<>>
  IN IF e.op = "Reopen"      \* a new backend object on the same store starts with a cold cache
     THEN << <<"new_backend_object_starts_with_empty_cache", p.lru = <<>> /\ p.ent = <<>> /\ p.usage = 0>> >>
     ELSE general \o specific

LOk(st, e)  == \A i \in 1..Len(Clauses(st, e)) : Clauses(st, e)[i][2]
LWhy(st, e) == {Clauses(st, e)[i][1] : i \in {j \in 1..Len(Clauses(st, e)) : ~Clauses(st, e)[j][2]}}
LStep(st, e) == [budget |-> st.budget, lru |-> e.proj.lru, ent |-> e.proj.ent, usage |-> e.proj.usage]
=============================================================================
