--------------------------- MODULE TraceRunnerMech ---------------------------
(* Trace validation of recorded executions of the REAL runner against the mechanism   *)
(* specification Runner (not against the monitor): the internal events of              *)
(* memento_run_batch / batch_run / memento_run_local recorded for a generated program -  *)
(*   call / batch / forget / forgetall   a root operation begins                          *)
(*   enter(f, a)        a body starts (a frame was pushed and nothing was found)           *)
(*   res(r)             the running body obtained resource handle r                        *)
(*   memoize(key, ok)   the frame on top of the stack finished: memoize was called for     *)
(*                      it (a frame whose body returned an unstorable value never gets      *)
(*                      there: classifying the result raises first)                          *)
(*   prop(caller, callee)   propagate_dependencies: the caller's memento under              *)
(*                      construction absorbs the callee's invocation                         *)
(*   end(out)           the root operation returned out                                      *)
(* - must be explained, in order, by steps of Runner: enter by the step that pushes that      *)
(* frame, memoize (+ the prop that follows it when there is a caller) by the step that         *)
(* finishes the frame on top, a prop on its own by the step that serves a call from the store   *)
(* and delivers it to the calling frame, res by the resource step, end by Complete with the      *)
(* same outcome.  Steps inside a body that have no event (a raise that does not fire, a call      *)
(* that is skipped, the start and the end of a batch, elements of a root batch served from the    *)
(* store) are silent.  One TLC run checks many traces (tid), register tid keeps the longest        *)
(* explained prefix.  -workers 1.                                                                  *)
EXTENDS Runner, Json, IOUtils

VARIABLES tid, l

NoProgs == {}
DocReg == 1000000
LoadDoc == TLCSet(DocReg, JsonDeserialize(IOEnv.TRACE_FILE))
Traces == TLCGet(DocReg).traces
Evs == Traces[tid].ev
Ev == Evs[l + 1]

Mark(n) == IF TLCGet(tid) < n THEN TLCSet(tid, n) ELSE TRUE
Consume(kind) == l < Len(Evs) /\ Ev.k = kind /\ l' = l + 1 /\ UNCHANGED tid /\ Mark(l + 1)
Consume2(kind1, kind2) == l + 1 < Len(Evs) /\ Ev.k = kind1 /\ Evs[l + 2].k = kind2 /\ l' = l + 2 /\ UNCHANGED tid /\ Mark(l + 2)
Silent(A) == A /\ UNCHANGED <<tid, l>>
K(x) == <<x[1], x[2], x[3]>>

TraceInit ==
    /\ LoadDoc
    /\ tid \in 1..Len(Traces) /\ l = 0
    /\ P = Traces[tid].cfg.prog
    /\ memo = [k \in (1..Len(P)) \X (0..AMax) \X Ctxs |-> Absent]
    /\ stack = <<>> /\ ran = <<>> /\ rq = <<>> /\ rvals = <<>>
    /\ cur = [op |-> "none"] /\ out = <<>> /\ nops = 0
    /\ mon = NInit([prog |-> P, prop |-> "none", store |-> "real", runner |-> "local"])
    /\ ok = TRUE /\ last = [op |-> "Init"]
    /\ TLCSet(tid, 0)

Pushes(f, a) == Len(stack') = Len(stack) + 1 /\ stack'[Len(stack')].k[1] = f /\ stack'[Len(stack')].k[2] = a
FreshRootFrame(f, a) == /\ Len(stack) = 1 /\ Top.k[1] = f /\ Top.k[2] = a /\ Top.pc = 1 /\ Top.invs = <<>> /\ Top.res = <<>>
                        /\ l > 0 /\ Evs[l].k = "call"
Finishes(key, stored) == stack # <<>> /\ K(Top.k) = K(key) /\ Len(stack') = Len(stack) - 1 /\ (stored <=> ~Top.u)
Delivers(caller, callee) == /\ stack # <<>> /\ Len(stack') = Len(stack) /\ K(Top.k) = K(caller)
                            /\ Len(stack'[Len(stack')].invs) = Len(Top.invs) + 1
                            /\ K(stack'[Len(stack')].invs[Len(Top.invs) + 1]) = K(callee)
Quiet == \/ stack' = <<>> /\ stack = <<>>
         \/ /\ stack # <<>> /\ Len(stack') = Len(stack)
            /\ stack'[Len(stack')].invs = Top.invs /\ stack'[Len(stack')].res = Top.res

TraceNext ==
    \/ Consume("call")      /\ RootCall(Ev.f, Ev.a, Ev.c)
    \/ Consume("batch")     /\ RootBatch(Ev.f, Ev.args, Ev.c, Ev.rf)
    \/ Consume("forget")    /\ (Forget(<<Ev.f, Ev.a, Ev.c>>) \/ (Idle /\ ~Has(<<Ev.f, Ev.a, Ev.c>>) /\ UNCHANGED vars))
    \/ Consume("forgetall") /\ (ForgetAll(Ev.f) \/ (Idle /\ (\A k \in AllKeys : k[1] = Ev.f => ~Has(k)) /\ UNCHANGED vars))
    \/ Consume("enter")     /\ ((Step \/ RootBatchStep) /\ Pushes(Ev.f, Ev.a))
    \/ Consume("enter")     /\ FreshRootFrame(Ev.f, Ev.a) /\ UNCHANGED vars
    \/ Consume("res")       /\ Step /\ stack # <<>> /\ Len(stack') = Len(stack) /\ stack'[Len(stack')].res = Append(Top.res, Ev.r)
    \/ Consume("memoize")   /\ Len(stack) = 1 /\ Step /\ Finishes(Ev.key, Ev.ok)
    \/ Consume2("memoize", "prop") /\ Len(stack) > 1 /\ Step /\ Finishes(Ev.key, Ev.ok)
                                   /\ K(Evs[l + 2].callee) = K(Ev.key) /\ K(Evs[l + 2].caller) = K(stack[Len(stack) - 1].k)
    \/ Consume("prop")      /\ Step /\ Delivers(Ev.caller, Ev.callee)
    \* a frame whose body returned something that cannot be stored: classifying the result fails before memoize is reached;
    \* the frame is popped and the invocation propagated all the same
    \/ Consume("prop")      /\ Len(stack) > 1 /\ Top.u /\ Step /\ Finishes(Ev.callee, FALSE) /\ K(Ev.caller) = K(stack[Len(stack) - 1].k)
    \/ Silent(Len(stack) = 1 /\ Top.u /\ (Top.pc > Len(P[Top.k[1]].body) \/ Top.ab # <<>>) /\ Step /\ stack' = <<>>)
    \/ Consume("end")       /\ Complete /\ (Ev.check => Same(last'.out, Ev.out))
    \* steps that have no event
    \/ Silent(Step /\ Quiet)
    \/ Silent(RootBatchStep /\ stack' = <<>>)
    \/ Silent(Complete /\ cur.op \in {"Forget", "ForgetAll"})

TraceSpec == TraceInit /\ [][TraceNext]_<<vars, tid, l>>

TraceReport ==
    /\ \A i \in 1..Len(Traces) :
          \/ TLCGet(i) = Len(Traces[i].ev)
          \/ PrintT(<<"REJECT", i, TLCGet(i), {Traces[i].ev[TLCGet(i) + 1].k}, 0>>)
    /\ PrintT(<<"STATS", Len(Traces), 0, Cardinality({i \in 1..Len(Traces) : TLCGet(i) # Len(Traces[i].ev)})>>)
=============================================================================
