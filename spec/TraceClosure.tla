---- MODULE TraceClosure ----
EXTENDS ClosureMon
VARIABLES tid, l, st
INSTANCE TraceCheck WITH MInit <- CInit, MOk <- COk, MStep <- CStep, MWhy <- CWhy
====
