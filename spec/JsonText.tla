------------------------------ MODULE JsonText ------------------------------
(* Text-level JSON building blocks shared by ArgKey (C04) and Codec (C11).       *)
(* Strings that need knowledge TLC does not have arrive as tokens from the         *)
(* harness's lexical tables: lex (the JSON writer's form of a number), esc (the     *)
(* ASCII-escaped JSON string literal, quotes included) and cp (code points, used     *)
(* only to ORDER keys the way the reference implementation does).                    *)
EXTENDS Naturals, Sequences, TLC

RECURSIVE Join(_, _)
Join(s, sep) == IF s = <<>> THEN "" ELSE IF Len(s) = 1 THEN s[1] ELSE s[1] \o sep \o Join(Tail(s), sep)

\* lexicographic order on code-point sequences (Python's str comparison)
RECURSIVE Lt(_, _)
Lt(a, b) == IF a = <<>> THEN b # <<>>
            ELSE IF b = <<>> THEN FALSE
            ELSE IF a[1] < b[1] THEN TRUE
            ELSE IF a[1] > b[1] THEN FALSE
            ELSE Lt(Tail(a), Tail(b))

\* entries are records with field k = [cp, esc]; later entries override earlier ones with the same key
RECURSIVE Dedup(_)
Dedup(es) == IF es = <<>> THEN <<>>
             ELSE LET h == Head(es) r == Tail(es) IN
                  IF \E i \in 1..Len(r) : r[i].k.cp = h.k.cp THEN Dedup(r) ELSE <<h>> \o Dedup(r)
RECURSIVE Insert(_, _)
Insert(e, sorted) == IF sorted = <<>> THEN <<e>>
                     ELSE IF Lt(e.k.cp, Head(sorted).k.cp) THEN <<e>> \o sorted
                     ELSE <<Head(sorted)>> \o Insert(e, Tail(sorted))
RECURSIVE SortEntries(_)
SortEntries(es) == IF es = <<>> THEN <<>> ELSE Insert(Head(es), SortEntries(Tail(es)))

Q(s) == "\"" \o s \o "\""                       \* s must be plain ASCII without quotes / backslashes
Key(cpseq, esc) == [cp |-> cpseq, esc |-> esc]
\* fixed keys of the documented encoding (code points spelled out so that they sort with user keys)
KMementoType == Key(<<95, 109, 101, 109, 101, 110, 116, 111, 84, 121, 112, 101>>, "\"_mementoType\"")
KIso8601     == Key(<<105, 115, 111, 56, 54, 48, 49>>, "\"iso8601\"")
KQualName    == Key(<<113, 117, 97, 108, 105, 102, 105, 101, 100, 78, 97, 109, 101>>, "\"qualifiedName\"")
KPartialArgs == Key(<<112, 97, 114, 116, 105, 97, 108, 65, 114, 103, 115>>, "\"partialArgs\"")
KPartialKw   == Key(<<112, 97, 114, 116, 105, 97, 108, 75, 119, 97, 114, 103, 115>>, "\"partialKwargs\"")
KParamNames  == Key(<<112, 97, 114, 97, 109, 101, 116, 101, 114, 78, 97, 109, 101, 115>>, "\"parameterNames\"")
KCtxArgs     == Key(<<95, 109, 101, 109, 101, 110, 116, 111, 95, 99, 111, 110, 116, 101, 120, 116, 95, 97, 114, 103, 115>>,
                    "\"_memento_context_args\"")

\* an object from entries [k, text] (text already rendered): sorted keys, no whitespace
Obj(es) == "{" \o Join([i \in 1..Len(SortEntries(Dedup(es))) |->
                          SortEntries(Dedup(es))[i].k.esc \o ":" \o SortEntries(Dedup(es))[i].text], ",") \o "}"
Arr(ts) == "[" \o Join(ts, ",") \o "]"
=============================================================================
