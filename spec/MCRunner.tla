---- MODULE MCRunner ----
EXTENDS Runner
\* hand-written programs exercising every step kind: nested calls with context overrides,
\* batches with duplicates and failing elements (caught / uncaught, raise-first or slots),
\* resources, recursion on decreasing argument (fib-like repeated sub-calls)
Call(g, d, ctx, catch) == [t |-> "call", g |-> g, d |-> d, ctx |-> ctx, catch |-> catch]
Batch(g, ds, ctx, rf, catch) == [t |-> "batch", g |-> g, ds |-> ds, ctx |-> ctx, rf |-> rf, catch |-> catch]
Res(r) == [t |-> "res", r |-> r]
Raise(w) == [t |-> "raise", when |-> w]
Bad(w) == [t |-> "bad", when |-> w]

PFib == << [body |-> <<Call(1, 1, "inherit", FALSE), Call(2, 0, "k1", FALSE), Call(1, 1, "inherit", FALSE)>>],
           [body |-> <<Res(1), Call(2, 1, "clear", TRUE)>>] >>
PBatch == << [body |-> <<Batch(2, <<0, 1, 0>>, "inherit", FALSE, FALSE), Res(2)>>],
             [body |-> <<Raise(1), Call(2, 1, "inherit", TRUE)>>] >>
PRaise == << [body |-> <<Batch(2, <<1, 0>>, "k2", TRUE, TRUE), Call(2, 0, "inherit", FALSE), Res(1)>>],
             [body |-> <<Res(1), Raise(0)>>] >>
PChain == << [body |-> <<Call(2, 0, "k1", FALSE), Res(2)>>],
             [body |-> <<Batch(3, <<0, 1>>, "inherit", FALSE, FALSE)>>],
             [body |-> <<Res(1), Raise(0)>>] >>
\* an element whose body returns something that cannot be stored: in a batch slot, caught and uncaught by a caller
PBad == << [body |-> <<Batch(2, <<0, 1>>, "inherit", FALSE, FALSE), Call(2, 0, "inherit", TRUE), Call(2, 1, "k1", FALSE)>>],
           [body |-> <<Res(1), Bad(0)>>] >>
\* inner calls and batches made through ignore_result() (the caller sees None unless the callee failed) and force_local()
Mod(s, m) == [x \in DOMAIN s \cup {"mod"} |-> IF x = "mod" THEN m ELSE s[x]]
PMods == << [body |-> <<Mod(Call(2, 0, "inherit", TRUE), "ignore"), Mod(Batch(2, <<0, 1>>, "k1", FALSE, FALSE), "ignore"),
                        Mod(Call(2, 1, "inherit", FALSE), "local")>>],
            [body |-> <<Res(1), Raise(0)>>] >>
MCProgs == {PFib, PBatch, PRaise, PChain, PBad, PMods}
MCBatchArgs == {<<>>, <<0>>, <<1, 1>>, <<1, 0>>}
====
