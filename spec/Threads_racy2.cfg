CONSTANTS
  Threads = {1, 2}
  Keys = {1, 2, 3}
  Wants <- W2
  Warms <- MCWarms
  VSize <- MCVSize
  MemSize = 1
  Budget = 4
  CacheAtomic = FALSE
  defaultInitValue = defaultInitValue
SPECIFICATION Spec
INVARIANT SingleFlight
INVARIANT NoInternalError
INVARIANT CacheConsistent
INVARIANT Quiescent
PROPERTY Termination
