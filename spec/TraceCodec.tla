---- MODULE TraceCodec ----
EXTENDS CodecMon
VARIABLES tid, l, st
INSTANCE TraceCheck WITH MInit <- DInit, MOk <- DOk, MStep <- DStep, MWhy <- DWhy
====
