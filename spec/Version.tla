------------------------------ MODULE Version ------------------------------
(* Mechanism specification of automatic versioning (M4):                         *)
(*   code_hash.py    hash rules (memento function / plain function / global       *)
(*                   variable / undefined symbol), collected transitively from     *)
(*                   the names a function body refers to, resolved through the      *)
(*                   module bindings AT COMPUTATION TIME; did_change per rule kind   *)
(*   memento.py:410-474  _update_dependencies: generation counter, per-name version  *)
(*                   cache, per-object calculated version and rule snapshots         *)
(*   runner: results are stored under (name, version)                                *)
(* Objects are first class: every (re)definition creates a new function object with   *)
(* an immutable snapshot of its text; names are bound to objects; an alias name may    *)
(* be rebound to another existing object.                                              *)
(*                                                                                    *)
(* A version is abstracted by the structure it is a digest of: the set of              *)
(* <<rule type, parent, key, hash>> of all rules with a hash.                          *)
(*                                                                                    *)
(* Deviations of the pinned commit from the intended design are named constants:       *)
(*   KF_DefaultsNotHashed   default parameter values are not part of the code hash      *)
(*   KF_AdoptCached         an object without calculated version adopts the cached      *)
(*                          version of its name without looking at anything              *)
(*                          (memento.py:447-450; there it even raises TypeError)          *)
(*   KF_AliasBlind          a memento-function rule only notices that its symbol no       *)
(*                          longer holds a memento function, not that it holds ANOTHER one *)
(*   KF_OneRulePerKey       rules are identified by <<type, parent, name of the target>>     *)
(*                          (HashRule.__eq__ / __hash__ on key, code_hash.py:528-532): two    *)
(*                          symbols of one body that hold objects of the same name give ONE    *)
(*                          rule - whichever is met first - so only one of the two symbols,     *)
(*                          and only one of the two objects, is hashed and watched                *)
(*                          (open finding C13-/C01-two-symbols-one-function-one-rule)              *)
EXTENDS Integers, Sequences, FiniteSets, TLC

CONSTANTS FnNames,        \* names defined by `def`
          RootName,       \* the automatically versioned memento function that is called
          AliasNames,     \* module attributes that hold an existing function object
          VarNames,       \* tracked module variables
          RefChoices,     \* RefChoices[n]: the possible sets of names the body of n refers to
          KindChoices,    \* KindChoices[n] \subseteq {"mem", "plain"}
          MaxEd, MaxVal, MaxObjs, MaxEvents,
          MaxLocks,       \* how often the cluster may be locked in one behaviour (0: never)
          KF_DefaultsNotHashed, KF_AdoptCached, KF_AliasBlind, KF_OneRulePerKey

VARIABLES text,     \* program text: n -> [kind, ed, dfl, refs]
          atarget,  \* program text: alias name -> function name it is assigned from
          val,      \* current value of module variables (-1: not defined)
          objs,     \* function objects ever created in this process: id -> [name, kind, ed, dfl, refs, reg]
          bind,     \* module namespace: function / alias name -> object id (0: unbound)
          gen, vcache, calc, rules,       \* memento.py state
          wrappers, \* ids of unregistered instances created by the user
          memo,     \* persistent store: set of [name, ver, built]
          nev, last, coherent, fresh,
          locked,   \* FunctionCluster.locked: no new memento functions, versions already calculated are frozen
          nlocks

vars == <<text, atarget, val, objs, bind, gen, vcache, calc, rules, wrappers, memo, nev, last, coherent, fresh, locked, nlocks>>
lockvars == <<locked, nlocks>>

AllNames == FnNames \cup AliasNames \cup VarNames
NoObj == 0
Locked == {<<"locked">>}        \* stands in for the provenance of a result computed under a frozen version
IsFnBound(n) == n \in (FnNames \cup AliasNames) /\ bind[n] # NoObj
ObjOf(n) == objs[bind[n]]

\* the hash of a function is the hash of its source: the edition of the body, the defaults, and the names it mentions
CodeHash(o) == IF KF_DefaultsNotHashed THEN <<o.ed, o.refs>> ELSE <<o.ed, o.dfl, o.refs>>
FullHash(o) == <<o.ed, o.dfl, o.refs>>

-----------------------------------------------------------------------------
(* rule collection (code_hash.py:605-647, 818-852): every reachable function o   *)
(* contributes one rule per name its body refers to, resolved NOW                 *)
RECURSIVE Reach(_, _)
Reach(frontier, seen) ==      \* object ids reachable through bound function names
  IF frontier = {} THEN seen
  ELSE LET id == CHOOSE x \in frontier : TRUE
           nxt == {bind[r] : r \in {q \in objs[id].refs : IsFnBound(q)}}
       IN Reach((frontier \cup nxt) \ (seen \cup {id}), seen \cup {id})

RuleFor(o, r, H(_)) ==      \* the rule object o's reference to name r gives rise to
  IF r \in VarNames
  THEN IF val[r] = -1 THEN [t |-> "U", parent |-> o.name, sym |-> r, key |-> r, snap |-> 0, hash |-> <<>>]
       ELSE [t |-> "G", parent |-> o.name, sym |-> r, key |-> r, snap |-> val[r], hash |-> <<val[r]>>]
  ELSE IF ~IsFnBound(r) THEN [t |-> "U", parent |-> o.name, sym |-> r, key |-> r, snap |-> 0, hash |-> <<>>]
  ELSE LET t == ObjOf(r) IN
       [t |-> IF t.kind = "mem" THEN "M" ELSE "F", parent |-> o.name, sym |-> r, key |-> t.name,
        snap |-> bind[r], hash |-> H(t)]

AllRules(id, H(_)) ==
  {[t |-> "M", parent |-> "-", sym |-> "-", key |-> objs[id].name, snap |-> id, hash |-> H(objs[id])]}
  \cup UNION {{RuleFor(objs[x], r, H) : r \in objs[x].refs} : x \in Reach({id}, {})}
SameKey(r1, r2) == r1.t = r2.t /\ r1.parent = r2.parent /\ r1.key = r2.key
Rules(id, H(_)) ==
  LET all == AllRules(id, H) IN
  IF KF_OneRulePerKey THEN {r \in all : r = CHOOSE w \in {x \in all : SameKey(x, r)} : TRUE} ELSE all

VersionOf(rs) == {<<r.t, r.parent, r.key, r.hash>> : r \in {x \in rs : x.hash # <<>>}}
Recompute(id) == VersionOf(Rules(id, CodeHash))           \* what a from-scratch computation yields
TrueVersion(id) == VersionOf(AllRules(id, FullHash))          \* what the result really depends on

(* HashRule.did_change per rule kind (code_hash.py:532-537,656-662,738-745,857-864)  *)
DidChange(r) ==
  CASE r.t = "U" -> IF r.sym \in VarNames THEN val[r.sym] # -1 ELSE IsFnBound(r.sym)
    [] r.t = "G" -> val[r.sym] # r.snap
    [] r.t = "F" -> bind[r.sym] # r.snap
    [] r.t = "M" -> IF r.sym = "-" THEN FALSE
                    ELSE \/ ~IsFnBound(r.sym) \/ ObjOf(r.sym).kind # "mem"
                         \/ (~KF_AliasBlind /\ bind[r.sym] # r.snap)

-----------------------------------------------------------------------------
NewObj(n, t, reg) == [name |-> n, kind |-> t.kind, ed |-> t.ed, dfl |-> t.dfl, refs |-> t.refs, reg |-> reg]

DefineAll ==     \* a fresh interpreter executes the module: every def creates an object, aliases are assigned
  LET ns == CHOOSE s \in [1..Cardinality(FnNames) -> FnNames] : \A i, j \in DOMAIN s : i # j => s[i] # s[j]
      os == [i \in 1..Len(ns) |-> NewObj(ns[i], text[ns[i]], TRUE)]
      idx(n) == CHOOSE i \in 1..Len(ns) : ns[i] = n
  IN /\ objs' = os
     /\ bind' = [n \in FnNames \cup AliasNames |-> IF n \in FnNames THEN idx(n) ELSE idx(atarget[n])]
     /\ gen' = Cardinality({i \in 1..Len(ns) : os[i].kind = "mem"})
     /\ vcache' = [n \in FnNames |-> <<>>]
     /\ calc' = [i \in 1..MaxObjs |-> <<>>]
     /\ rules' = [i \in 1..MaxObjs |-> {}]
     /\ wrappers' = {}

Init ==
  /\ text \in [FnNames -> [kind : {"mem", "plain"}, ed : {0}, dfl : {0}, refs : UNION {RefChoices[n] : n \in FnNames}]]
  /\ \A n \in FnNames : text[n].kind = (IF n = RootName THEN "mem" ELSE CHOOSE k \in KindChoices[n] : TRUE)
                        /\ text[n].refs = CHOOSE s \in RefChoices[n] : \A s2 \in RefChoices[n] : Cardinality(s2) <= Cardinality(s)
  /\ atarget \in [AliasNames -> FnNames \ {RootName}]
  /\ val \in [VarNames -> {0}]
  /\ memo = {} /\ nev = 0 /\ last = [ev |-> "init"] /\ coherent = TRUE /\ fresh = TRUE
  /\ locked = FALSE /\ nlocks = 0
  /\ LET ns == CHOOSE s \in [1..Cardinality(FnNames) -> FnNames] : \A i, j \in DOMAIN s : i # j => s[i] # s[j]
         os == [i \in 1..Len(ns) |-> NewObj(ns[i], text[ns[i]], TRUE)]
         idx(n) == CHOOSE i \in 1..Len(ns) : ns[i] = n
     IN /\ objs = os
        /\ bind = [n \in FnNames \cup AliasNames |-> IF n \in FnNames THEN idx(n) ELSE idx(atarget[n])]
        /\ gen = Cardinality({i \in 1..Len(ns) : os[i].kind = "mem"})
  /\ vcache = [n \in FnNames |-> <<>>]
  /\ calc = [i \in 1..MaxObjs |-> <<>>]
  /\ rules = [i \in 1..MaxObjs |-> {}]
  /\ wrappers = {}

Tick(e) == nev < MaxEvents /\ nev' = nev + 1 /\ last' = e

(* re-execute (or execute an edited) definition of n in the running interpreter    *)
Redefine(n, ed2, dfl2, refs2, kind2) ==
  /\ Tick([ev |-> "Redefine", n |-> n, ed |-> ed2, dfl |-> dfl2, refs |-> refs2, kind |-> kind2])
  /\ Len(objs) < MaxObjs
  /\ (locked => kind2 # "mem")       \* a locked cluster refuses new memento functions (configuration.py:572-577)
  /\ UNCHANGED lockvars
  /\ text' = [text EXCEPT ![n] = [kind |-> kind2, ed |-> ed2, dfl |-> dfl2, refs |-> refs2]]
  /\ objs' = Append(objs, NewObj(n, text'[n], TRUE))
  /\ bind' = [bind EXCEPT ![n] = Len(objs) + 1]
  /\ gen' = IF kind2 = "mem" THEN gen + 1 ELSE gen          \* registration bumps the generation
  /\ UNCHANGED <<atarget, val, vcache, calc, rules, wrappers, memo, coherent, fresh>>

SetVar(v, x) ==
  /\ Tick([ev |-> "SetVar", n |-> v, x |-> x])
  /\ val[v] # x /\ val' = [val EXCEPT ![v] = x] /\ UNCHANGED lockvars
  /\ UNCHANGED <<text, atarget, objs, bind, gen, vcache, calc, rules, wrappers, memo, coherent, fresh>>

Rebind(a, n) ==      \* a = n   (module attribute assigned an existing object)
  /\ Tick([ev |-> "Rebind", n |-> a, to |-> n])
  /\ bind[n] # NoObj /\ bind[a] # bind[n] /\ UNCHANGED lockvars
  /\ bind' = [bind EXCEPT ![a] = bind[n]] /\ atarget' = [atarget EXCEPT ![a] = n]
  /\ UNCHANGED <<text, val, objs, gen, vcache, calc, rules, wrappers, memo, coherent, fresh>>

Wrap(n) ==           \* MementoFunction(fn, register_fn = FALSE) around the function currently bound to n
  /\ Tick([ev |-> "Wrap", n |-> n, id |-> Len(objs) + 1])
  /\ Len(objs) < MaxObjs /\ bind[n] # NoObj /\ ObjOf(n).kind = "mem" /\ UNCHANGED lockvars
  /\ objs' = Append(objs, [ObjOf(n) EXCEPT !.reg = FALSE])
  /\ wrappers' = wrappers \cup {Len(objs) + 1}
  /\ UNCHANGED <<text, atarget, val, bind, gen, vcache, calc, rules, memo, coherent, fresh>>

(* MementoFunction._update_dependencies, memento.py:410-474                          *)
QueryResult(id) ==     \* -> [ver, gen, vcache, calc, rules]
  LET nm == objs[id].name
      e  == vcache[nm]
      hit == e # <<>> /\ e[1] = gen
      changed == hit /\ \E r \in rules[id] : DidChange(r)
      gen1 == IF changed THEN gen + 1 ELSE gen
  \* (the name-keyed cache entry may have been refreshed by ANOTHER object of that name: an object keeps its calculated
  \*  version only if it is the cached one - memento.py after 46706b5)
  \* a locked cluster: a version that has been calculated is not looked at again (memento.py:437-441)
  IN IF locked /\ calc[id] # <<>>
     THEN [ver |-> calc[id][1], gen |-> gen, vcache |-> vcache, calc |-> calc, rules |-> rules]
     ELSE IF hit /\ ~changed /\ calc[id] # <<>> /\ calc[id][1] = e[2]
     THEN [ver |-> calc[id][1], gen |-> gen, vcache |-> vcache, calc |-> calc, rules |-> rules]
     ELSE IF hit /\ ~changed /\ calc[id] = <<>> /\ KF_AdoptCached
     THEN [ver |-> e[2], gen |-> gen, vcache |-> vcache, calc |-> [calc EXCEPT ![id] = <<e[2]>>], rules |-> rules]
     ELSE LET v == Recompute(id) IN
          [ver |-> v, gen |-> gen1, vcache |-> [vcache EXCEPT ![nm] = <<gen1, v>>],
           calc |-> [calc EXCEPT ![id] = <<v>>], rules |-> [rules EXCEPT ![id] = Rules(id, CodeHash)]]

Queryable == {bind[n] : n \in {x \in FnNames : bind[x] # NoObj /\ ObjOf(x).kind = "mem"}} \cup wrappers

Query(id) ==
  LET q == QueryResult(id) IN
  /\ Tick([ev |-> "Query", id |-> id, n |-> objs[id].name, wrapper |-> id \in wrappers, ver |-> q.ver])
  /\ gen' = q.gen /\ vcache' = q.vcache /\ calc' = q.calc /\ rules' = q.rules
  /\ coherent' = (coherent /\ (locked \/ q.ver = Recompute(id)))        \* C13 (the frozen versions of a locked cluster excepted)
  /\ UNCHANGED <<text, atarget, val, objs, bind, wrappers, memo, fresh>> /\ UNCHANGED lockvars

(* a call of the root function: the version keys the store                            *)
Call ==
  LET id == bind[RootName]
      q  == QueryResult(id)
      hits == {m \in memo : m.name = RootName /\ m.ver = q.ver}
  IN /\ Tick([ev |-> "Call", served |-> hits # {}, ver |-> q.ver])
     /\ gen' = q.gen /\ vcache' = q.vcache /\ calc' = q.calc /\ rules' = q.rules
     /\ IF hits # {}
        \* C01; what is served or stored under a frozen version is the user's choice (built "locked": exempt for good)
        THEN fresh' = (fresh /\ (locked \/ \A m \in hits : m.built = Locked \/ m.built = TrueVersion(id))) /\ UNCHANGED memo
        ELSE memo' = memo \cup {[name |-> RootName, ver |-> q.ver, built |-> IF locked THEN Locked ELSE TrueVersion(id)]} /\ UNCHANGED fresh
     /\ UNCHANGED <<text, atarget, val, objs, bind, wrappers, coherent>> /\ UNCHANGED lockvars

(* a fresh interpreter on the same store, importing the program as it stands           *)
NewProcess ==
  /\ Tick([ev |-> "NewProcess"])
  /\ DefineAll
  /\ locked' = FALSE /\ UNCHANGED nlocks          \* the lock is state of the process that set it
  /\ UNCHANGED <<text, atarget, val, memo, coherent, fresh>>

SetLock(b) ==        \* cluster.locked = b
  /\ Tick([ev |-> "Lock", on |-> b])
  /\ locked # b /\ (b => nlocks < MaxLocks)
  \* (the code calculates a version when a function is defined, the model when it is first asked for: the two agree on what
  \*  a lock freezes once every memento function in the namespace has been asked since the last change)
  /\ b => \A n \in FnNames : (bind[n] # NoObj /\ ObjOf(n).kind = "mem") =>
                                 (calc[bind[n]] # <<>> /\ calc[bind[n]][1] = Recompute(bind[n]))
  /\ locked' = b /\ nlocks' = IF b THEN nlocks + 1 ELSE nlocks
  /\ UNCHANGED <<text, atarget, val, objs, bind, gen, vcache, calc, rules, wrappers, memo, coherent, fresh>>

Mutate ==
  \/ \E n \in FnNames, e \in 0..1, d \in 0..1, rs \in UNION {RefChoices[x] : x \in FnNames}, k \in {"mem", "plain"} :
        /\ rs \in RefChoices[n] /\ k \in KindChoices[n]
        /\ text[n].ed + e <= MaxEd /\ text[n].dfl + d <= MaxEd
        /\ Redefine(n, text[n].ed + e, text[n].dfl + d, rs, k)
  \/ \E v \in VarNames, x \in -1..MaxVal : SetVar(v, x)
  \/ \E a \in AliasNames, n \in FnNames \ {RootName} : Rebind(a, n)
  \/ \E n \in FnNames : Wrap(n)
  \/ NewProcess
  \/ \E b \in BOOLEAN : SetLock(b)
Observe ==
  \/ \E id \in Queryable : Query(id)
  \/ Call
Next == Mutate \/ Observe

Spec == Init /\ [][Next]_vars

Coherent == coherent        \* C13: every version query equals the from-scratch computation
Fresh    == fresh           \* C01: whatever a call serves was built from the current program
(* a locked cluster freezes the versions that have been calculated                      *)
Frozen == [][(locked /\ locked') => \A id \in 1..Len(objs) : calc[id] # <<>> => calc'[id] = calc[id]]_vars
(* C03: nothing of the in-process history (generation, object ids, caches) occurs in a version *)
Deterministic == \A id \in 1..Len(objs) : calc[id] # <<>> =>
                    \A t \in calc[id][1] : t[1] \in {"M", "F", "G"} /\ t[2] \in FnNames \cup {"-"}
=============================================================================
