------------------------------ MODULE Threads ------------------------------
(* Mechanism specification (PlusCal) of concurrent callers, M3 + cache:           *)
(*   LocalRunnerBackend.batch_run   bulk pre-check OUTSIDE the per-call mutex      *)
(*                                  (runner_local.py:87-122)                        *)
(*   memento_run_local              per-call mutex, re-check inside it, body,       *)
(*                                  is_memoized-guarded memoize (:279-355)          *)
(*   StorageBackendBase.get_mementos / read_result / is_memoized / memoize          *)
(*   MemoryCache.put / _evict / _mark_used at STATEMENT granularity                 *)
(* CacheAtomic = TRUE : every public MemoryCache method runs under the cache lock    *)
(*                      (the repaired code, commit 45ba5d9)                           *)
(* CacheAtomic = FALSE: the statements of put/_evict/_mark_used interleave (the       *)
(*                      pinned commit) - TLC then exhibits the escaping KeyError /     *)
(*                      ValueError and the usage drift as counterexamples.             *)
(* Each thread performs one top-level call of want[self].  Scenarios (cold store,      *)
(* warm store + cold cache, warm cache) x (same key, different keys) are initial-state  *)
(* choices.                                                                            *)
EXTENDS Naturals, Sequences, FiniteSets, TLC

CONSTANTS Threads, Keys, Wants, Warms, VSize, MemSize, Budget, CacheAtomic

Remove(s, x) == SelectSeq(s, LAMBDA y : y # x)
Range(s) == {s[i] : i \in 1..Len(s)}
HasCache == Budget > 0
RECURSIVE SumV(_)
SumV(s) == IF s = <<>> THEN 0 ELSE VSize[Head(s)] + SumV(Tail(s))

(* --algorithm Threads {
variables
  want \in Wants,                       \* want[t] : the key thread t calls
  warm \in Warms,                       \* [store |-> set of keys, cache |-> sequence of keys (LRU order)]
  disk = [k \in Keys |-> k \in warm.store],
  ent = [k \in Keys |-> IF k \in Range(warm.cache) THEN "val" ELSE "none"],   \* "none" | "mem" | "val"
  esize = [k \in Keys |-> IF k \in Range(warm.cache) THEN VSize[k] ELSE 0],
  lru = warm.cache,
  usage = SumV(warm.cache),
  cachelock = 0,
  mutex = [k \in Keys |-> 0],
  exec = [k \in Keys |-> 0],
  found = [t \in Threads |-> FALSE],
  memoized = [t \in Threads |-> FALSE],
  outcome = [t \in Threads |-> "running"];    \* "running" | "value" | "error"

define {
  AllDone == \A t \in Threads : outcome[t] # "running"
  RECURSIVE SumLru(_)
  SumLru(s) == IF s = <<>> THEN 0 ELSE esize[Head(s)] + SumLru(Tail(s))
}

macro Lock()   { if (CacheAtomic) { await cachelock \in {0, self}; cachelock := self } }
macro Unlock() { if (CacheAtomic) { cachelock := 0 } }
\* a cache method that is a single step anyway: it only has to find the lock free
macro Locked() { await (~CacheAtomic) \/ cachelock \in {0, self} }

\* MemoryCache._evict (storage_base.py:1178-1185): python-level faults are explicit
procedure Evict(ek)
{
 E1: if (ent[ek] # "none") {
 E2:   usage := usage - esize[ek];
 E3:   if (ent[ek] = "none") { outcome[self] := "error" }                 \* del self.cache[k] -> KeyError
       else { ent[ek] := "none" || esize[ek] := 0 };
     };
 E4: if (ek \in Range(lru)) {
 E5:   if (ek \notin Range(lru)) { outcome[self] := "error" }              \* deque.remove -> ValueError
       else { lru := Remove(lru, ek) };
     };
 E6: return;
}

\* MemoryCache.put (storage_base.py:1231-1262), lock taken by the caller
procedure Put(pk, psize, pkind)
variable victim = 0;
{
 P2: if (psize > Budget) { call Evict(pk); P2r: return };
 P3: call Evict(pk);
 P4: while (Len(lru) > 0 /\ usage + psize > Budget) {
       victim := Head(lru); lru := Tail(lru);           \* popleft
 P4e:  call Evict(victim);
     };
 P5: ent[pk] := pkind || esize[pk] := psize;
 P6: lru := Append(lru, pk);
 P7: usage := usage + psize;
     return;
}

\* StorageBackendBase.get_mementos for one key (cache lookup, metadata read, memento-only put)
procedure GetMemento(gk)
{
 G1: Locked();
     found[self] := (HasCache /\ ent[gk] # "none");
 G2: if (~found[self]) {
       found[self] := disk[gk];                          \* metadata source read
 G3:   if (found[self] /\ HasCache) {
 G3l:    Lock();
         call Put(gk, MemSize, "mem");
 G3u:    Unlock();
       };
     };
 G4: return;
}

\* StorageBackendBase.read_result (cache value | store load + put)
procedure ReadResult(rk)
{
 R1: Lock();
     if (HasCache /\ ent[rk] = "val") {
 R2:   lru := Remove(lru, rk);                            \* _mark_used: remove (ValueError swallowed)
 R3:   lru := Append(lru, rk);
       Unlock();
 R3r:  return;
     };
 R4: Unlock();
 R5: assert disk[rk];                                     \* codec.load from the store
     if (HasCache) {
 R6:   Lock();
       call Put(rk, VSize[rk], "val");
 R7:   Unlock();
     };
 R8: return;
}

fair process (T \in Threads)
{
 \* ---- batch_run: bulk pre-check outside the mutex ------------------------------------
 B1: call GetMemento(want[self]);
 B2: if (found[self]) {
       call ReadResult(want[self]);
 B3:   outcome[self] := "value"; goto Fin;
     };
 \* ---- memento_run_local ---------------------------------------------------------------
 M1: await mutex[want[self]] \in {0, self};               \* table lock + per-call mutex
     mutex[want[self]] := self;
 M2: call GetMemento(want[self]);                         \* re-check inside the mutex
 M3: if (found[self]) {
       call ReadResult(want[self]);
 M4:   mutex[want[self]] := 0; outcome[self] := "value"; goto Fin;
     };
 M5: exec[want[self]] := exec[want[self]] + 1;            \* the function body runs
 M6: Locked();                                            \* storage.is_memoized
     if (HasCache /\ ent[want[self]] # "none") {
       lru := Append(Remove(lru, want[self]), want[self]); memoized[self] := TRUE
     } else { memoized[self] := disk[want[self]] };
 M7: if (~memoized[self]) {
       if (HasCache) {
 M7l:    Lock();
         call Put(want[self], VSize[want[self]], "val");  \* write-through
 M7u:    Unlock();
       };
 M8:   disk[want[self]] := TRUE;                          \* object, pointer, memento, pointer
     };
 M9: mutex[want[self]] := 0;
     outcome[self] := "value";
 Fin: skip;
}
} *)
\* BEGIN TRANSLATION
CONSTANT defaultInitValue
VARIABLES pc, want, warm, disk, ent, esize, lru, usage, cachelock, mutex, 
          exec, found, memoized, outcome, stack

(* define statement *)
AllDone == \A t \in Threads : outcome[t] # "running"
RECURSIVE SumLru(_)
SumLru(s) == IF s = <<>> THEN 0 ELSE esize[Head(s)] + SumLru(Tail(s))

VARIABLES ek, pk, psize, pkind, victim, gk, rk

vars == << pc, want, warm, disk, ent, esize, lru, usage, cachelock, mutex, 
           exec, found, memoized, outcome, stack, ek, pk, psize, pkind, 
           victim, gk, rk >>

ProcSet == (Threads)

Init == (* Global variables *)
        /\ want \in Wants
        /\ warm \in Warms
        /\ disk = [k \in Keys |-> k \in warm.store]
        /\ ent = [k \in Keys |-> IF k \in Range(warm.cache) THEN "val" ELSE "none"]
        /\ esize = [k \in Keys |-> IF k \in Range(warm.cache) THEN VSize[k] ELSE 0]
        /\ lru = warm.cache
        /\ usage = SumV(warm.cache)
        /\ cachelock = 0
        /\ mutex = [k \in Keys |-> 0]
        /\ exec = [k \in Keys |-> 0]
        /\ found = [t \in Threads |-> FALSE]
        /\ memoized = [t \in Threads |-> FALSE]
        /\ outcome = [t \in Threads |-> "running"]
        (* Procedure Evict *)
        /\ ek = [ self \in ProcSet |-> defaultInitValue]
        (* Procedure Put *)
        /\ pk = [ self \in ProcSet |-> defaultInitValue]
        /\ psize = [ self \in ProcSet |-> defaultInitValue]
        /\ pkind = [ self \in ProcSet |-> defaultInitValue]
        /\ victim = [ self \in ProcSet |-> 0]
        (* Procedure GetMemento *)
        /\ gk = [ self \in ProcSet |-> defaultInitValue]
        (* Procedure ReadResult *)
        /\ rk = [ self \in ProcSet |-> defaultInitValue]
        /\ stack = [self \in ProcSet |-> << >>]
        /\ pc = [self \in ProcSet |-> "B1"]

E1(self) == /\ pc[self] = "E1"
            /\ IF ent[ek[self]] # "none"
                  THEN /\ pc' = [pc EXCEPT ![self] = "E2"]
                  ELSE /\ pc' = [pc EXCEPT ![self] = "E4"]
            /\ UNCHANGED << want, warm, disk, ent, esize, lru, usage, 
                            cachelock, mutex, exec, found, memoized, outcome, 
                            stack, ek, pk, psize, pkind, victim, gk, rk >>

E2(self) == /\ pc[self] = "E2"
            /\ usage' = usage - esize[ek[self]]
            /\ pc' = [pc EXCEPT ![self] = "E3"]
            /\ UNCHANGED << want, warm, disk, ent, esize, lru, cachelock, 
                            mutex, exec, found, memoized, outcome, stack, ek, 
                            pk, psize, pkind, victim, gk, rk >>

E3(self) == /\ pc[self] = "E3"
            /\ IF ent[ek[self]] = "none"
                  THEN /\ outcome' = [outcome EXCEPT ![self] = "error"]
                       /\ UNCHANGED << ent, esize >>
                  ELSE /\ /\ ent' = [ent EXCEPT ![ek[self]] = "none"]
                          /\ esize' = [esize EXCEPT ![ek[self]] = 0]
                       /\ UNCHANGED outcome
            /\ pc' = [pc EXCEPT ![self] = "E4"]
            /\ UNCHANGED << want, warm, disk, lru, usage, cachelock, mutex, 
                            exec, found, memoized, stack, ek, pk, psize, pkind, 
                            victim, gk, rk >>

E4(self) == /\ pc[self] = "E4"
            /\ IF ek[self] \in Range(lru)
                  THEN /\ pc' = [pc EXCEPT ![self] = "E5"]
                  ELSE /\ pc' = [pc EXCEPT ![self] = "E6"]
            /\ UNCHANGED << want, warm, disk, ent, esize, lru, usage, 
                            cachelock, mutex, exec, found, memoized, outcome, 
                            stack, ek, pk, psize, pkind, victim, gk, rk >>

E5(self) == /\ pc[self] = "E5"
            /\ IF ek[self] \notin Range(lru)
                  THEN /\ outcome' = [outcome EXCEPT ![self] = "error"]
                       /\ lru' = lru
                  ELSE /\ lru' = Remove(lru, ek[self])
                       /\ UNCHANGED outcome
            /\ pc' = [pc EXCEPT ![self] = "E6"]
            /\ UNCHANGED << want, warm, disk, ent, esize, usage, cachelock, 
                            mutex, exec, found, memoized, stack, ek, pk, psize, 
                            pkind, victim, gk, rk >>

E6(self) == /\ pc[self] = "E6"
            /\ pc' = [pc EXCEPT ![self] = Head(stack[self]).pc]
            /\ ek' = [ek EXCEPT ![self] = Head(stack[self]).ek]
            /\ stack' = [stack EXCEPT ![self] = Tail(stack[self])]
            /\ UNCHANGED << want, warm, disk, ent, esize, lru, usage, 
                            cachelock, mutex, exec, found, memoized, outcome, 
                            pk, psize, pkind, victim, gk, rk >>

Evict(self) == E1(self) \/ E2(self) \/ E3(self) \/ E4(self) \/ E5(self)
                  \/ E6(self)

P2(self) == /\ pc[self] = "P2"
            /\ IF psize[self] > Budget
                  THEN /\ /\ ek' = [ek EXCEPT ![self] = pk[self]]
                          /\ stack' = [stack EXCEPT ![self] = << [ procedure |->  "Evict",
                                                                   pc        |->  "P2r",
                                                                   ek        |->  ek[self] ] >>
                                                               \o stack[self]]
                       /\ pc' = [pc EXCEPT ![self] = "E1"]
                  ELSE /\ pc' = [pc EXCEPT ![self] = "P3"]
                       /\ UNCHANGED << stack, ek >>
            /\ UNCHANGED << want, warm, disk, ent, esize, lru, usage, 
                            cachelock, mutex, exec, found, memoized, outcome, 
                            pk, psize, pkind, victim, gk, rk >>

P2r(self) == /\ pc[self] = "P2r"
             /\ pc' = [pc EXCEPT ![self] = Head(stack[self]).pc]
             /\ victim' = [victim EXCEPT ![self] = Head(stack[self]).victim]
             /\ pk' = [pk EXCEPT ![self] = Head(stack[self]).pk]
             /\ psize' = [psize EXCEPT ![self] = Head(stack[self]).psize]
             /\ pkind' = [pkind EXCEPT ![self] = Head(stack[self]).pkind]
             /\ stack' = [stack EXCEPT ![self] = Tail(stack[self])]
             /\ UNCHANGED << want, warm, disk, ent, esize, lru, usage, 
                             cachelock, mutex, exec, found, memoized, outcome, 
                             ek, gk, rk >>

P3(self) == /\ pc[self] = "P3"
            /\ /\ ek' = [ek EXCEPT ![self] = pk[self]]
               /\ stack' = [stack EXCEPT ![self] = << [ procedure |->  "Evict",
                                                        pc        |->  "P4",
                                                        ek        |->  ek[self] ] >>
                                                    \o stack[self]]
            /\ pc' = [pc EXCEPT ![self] = "E1"]
            /\ UNCHANGED << want, warm, disk, ent, esize, lru, usage, 
                            cachelock, mutex, exec, found, memoized, outcome, 
                            pk, psize, pkind, victim, gk, rk >>

P4(self) == /\ pc[self] = "P4"
            /\ IF Len(lru) > 0 /\ usage + psize[self] > Budget
                  THEN /\ victim' = [victim EXCEPT ![self] = Head(lru)]
                       /\ lru' = Tail(lru)
                       /\ pc' = [pc EXCEPT ![self] = "P4e"]
                  ELSE /\ pc' = [pc EXCEPT ![self] = "P5"]
                       /\ UNCHANGED << lru, victim >>
            /\ UNCHANGED << want, warm, disk, ent, esize, usage, cachelock, 
                            mutex, exec, found, memoized, outcome, stack, ek, 
                            pk, psize, pkind, gk, rk >>

P4e(self) == /\ pc[self] = "P4e"
             /\ /\ ek' = [ek EXCEPT ![self] = victim[self]]
                /\ stack' = [stack EXCEPT ![self] = << [ procedure |->  "Evict",
                                                         pc        |->  "P4",
                                                         ek        |->  ek[self] ] >>
                                                     \o stack[self]]
             /\ pc' = [pc EXCEPT ![self] = "E1"]
             /\ UNCHANGED << want, warm, disk, ent, esize, lru, usage, 
                             cachelock, mutex, exec, found, memoized, outcome, 
                             pk, psize, pkind, victim, gk, rk >>

P5(self) == /\ pc[self] = "P5"
            /\ /\ ent' = [ent EXCEPT ![pk[self]] = pkind[self]]
               /\ esize' = [esize EXCEPT ![pk[self]] = psize[self]]
            /\ pc' = [pc EXCEPT ![self] = "P6"]
            /\ UNCHANGED << want, warm, disk, lru, usage, cachelock, mutex, 
                            exec, found, memoized, outcome, stack, ek, pk, 
                            psize, pkind, victim, gk, rk >>

P6(self) == /\ pc[self] = "P6"
            /\ lru' = Append(lru, pk[self])
            /\ pc' = [pc EXCEPT ![self] = "P7"]
            /\ UNCHANGED << want, warm, disk, ent, esize, usage, cachelock, 
                            mutex, exec, found, memoized, outcome, stack, ek, 
                            pk, psize, pkind, victim, gk, rk >>

P7(self) == /\ pc[self] = "P7"
            /\ usage' = usage + psize[self]
            /\ pc' = [pc EXCEPT ![self] = Head(stack[self]).pc]
            /\ victim' = [victim EXCEPT ![self] = Head(stack[self]).victim]
            /\ pk' = [pk EXCEPT ![self] = Head(stack[self]).pk]
            /\ psize' = [psize EXCEPT ![self] = Head(stack[self]).psize]
            /\ pkind' = [pkind EXCEPT ![self] = Head(stack[self]).pkind]
            /\ stack' = [stack EXCEPT ![self] = Tail(stack[self])]
            /\ UNCHANGED << want, warm, disk, ent, esize, lru, cachelock, 
                            mutex, exec, found, memoized, outcome, ek, gk, rk >>

Put(self) == P2(self) \/ P2r(self) \/ P3(self) \/ P4(self) \/ P4e(self)
                \/ P5(self) \/ P6(self) \/ P7(self)

G1(self) == /\ pc[self] = "G1"
            /\ (~CacheAtomic) \/ cachelock \in {0, self}
            /\ found' = [found EXCEPT ![self] = (HasCache /\ ent[gk[self]] # "none")]
            /\ pc' = [pc EXCEPT ![self] = "G2"]
            /\ UNCHANGED << want, warm, disk, ent, esize, lru, usage, 
                            cachelock, mutex, exec, memoized, outcome, stack, 
                            ek, pk, psize, pkind, victim, gk, rk >>

G2(self) == /\ pc[self] = "G2"
            /\ IF ~found[self]
                  THEN /\ found' = [found EXCEPT ![self] = disk[gk[self]]]
                       /\ pc' = [pc EXCEPT ![self] = "G3"]
                  ELSE /\ pc' = [pc EXCEPT ![self] = "G4"]
                       /\ found' = found
            /\ UNCHANGED << want, warm, disk, ent, esize, lru, usage, 
                            cachelock, mutex, exec, memoized, outcome, stack, 
                            ek, pk, psize, pkind, victim, gk, rk >>

G3(self) == /\ pc[self] = "G3"
            /\ IF found[self] /\ HasCache
                  THEN /\ pc' = [pc EXCEPT ![self] = "G3l"]
                  ELSE /\ pc' = [pc EXCEPT ![self] = "G4"]
            /\ UNCHANGED << want, warm, disk, ent, esize, lru, usage, 
                            cachelock, mutex, exec, found, memoized, outcome, 
                            stack, ek, pk, psize, pkind, victim, gk, rk >>

G3l(self) == /\ pc[self] = "G3l"
             /\ IF CacheAtomic
                   THEN /\ cachelock \in {0, self}
                        /\ cachelock' = self
                   ELSE /\ TRUE
                        /\ UNCHANGED cachelock
             /\ /\ pk' = [pk EXCEPT ![self] = gk[self]]
                /\ pkind' = [pkind EXCEPT ![self] = "mem"]
                /\ psize' = [psize EXCEPT ![self] = MemSize]
                /\ stack' = [stack EXCEPT ![self] = << [ procedure |->  "Put",
                                                         pc        |->  "G3u",
                                                         victim    |->  victim[self],
                                                         pk        |->  pk[self],
                                                         psize     |->  psize[self],
                                                         pkind     |->  pkind[self] ] >>
                                                     \o stack[self]]
             /\ victim' = [victim EXCEPT ![self] = 0]
             /\ pc' = [pc EXCEPT ![self] = "P2"]
             /\ UNCHANGED << want, warm, disk, ent, esize, lru, usage, mutex, 
                             exec, found, memoized, outcome, ek, gk, rk >>

G3u(self) == /\ pc[self] = "G3u"
             /\ IF CacheAtomic
                   THEN /\ cachelock' = 0
                   ELSE /\ TRUE
                        /\ UNCHANGED cachelock
             /\ pc' = [pc EXCEPT ![self] = "G4"]
             /\ UNCHANGED << want, warm, disk, ent, esize, lru, usage, mutex, 
                             exec, found, memoized, outcome, stack, ek, pk, 
                             psize, pkind, victim, gk, rk >>

G4(self) == /\ pc[self] = "G4"
            /\ pc' = [pc EXCEPT ![self] = Head(stack[self]).pc]
            /\ gk' = [gk EXCEPT ![self] = Head(stack[self]).gk]
            /\ stack' = [stack EXCEPT ![self] = Tail(stack[self])]
            /\ UNCHANGED << want, warm, disk, ent, esize, lru, usage, 
                            cachelock, mutex, exec, found, memoized, outcome, 
                            ek, pk, psize, pkind, victim, rk >>

GetMemento(self) == G1(self) \/ G2(self) \/ G3(self) \/ G3l(self)
                       \/ G3u(self) \/ G4(self)

R1(self) == /\ pc[self] = "R1"
            /\ IF CacheAtomic
                  THEN /\ cachelock \in {0, self}
                       /\ cachelock' = self
                  ELSE /\ TRUE
                       /\ UNCHANGED cachelock
            /\ IF HasCache /\ ent[rk[self]] = "val"
                  THEN /\ pc' = [pc EXCEPT ![self] = "R2"]
                  ELSE /\ pc' = [pc EXCEPT ![self] = "R4"]
            /\ UNCHANGED << want, warm, disk, ent, esize, lru, usage, mutex, 
                            exec, found, memoized, outcome, stack, ek, pk, 
                            psize, pkind, victim, gk, rk >>

R2(self) == /\ pc[self] = "R2"
            /\ lru' = Remove(lru, rk[self])
            /\ pc' = [pc EXCEPT ![self] = "R3"]
            /\ UNCHANGED << want, warm, disk, ent, esize, usage, cachelock, 
                            mutex, exec, found, memoized, outcome, stack, ek, 
                            pk, psize, pkind, victim, gk, rk >>

R3(self) == /\ pc[self] = "R3"
            /\ lru' = Append(lru, rk[self])
            /\ IF CacheAtomic
                  THEN /\ cachelock' = 0
                  ELSE /\ TRUE
                       /\ UNCHANGED cachelock
            /\ pc' = [pc EXCEPT ![self] = "R3r"]
            /\ UNCHANGED << want, warm, disk, ent, esize, usage, mutex, exec, 
                            found, memoized, outcome, stack, ek, pk, psize, 
                            pkind, victim, gk, rk >>

R3r(self) == /\ pc[self] = "R3r"
             /\ pc' = [pc EXCEPT ![self] = Head(stack[self]).pc]
             /\ rk' = [rk EXCEPT ![self] = Head(stack[self]).rk]
             /\ stack' = [stack EXCEPT ![self] = Tail(stack[self])]
             /\ UNCHANGED << want, warm, disk, ent, esize, lru, usage, 
                             cachelock, mutex, exec, found, memoized, outcome, 
                             ek, pk, psize, pkind, victim, gk >>

R4(self) == /\ pc[self] = "R4"
            /\ IF CacheAtomic
                  THEN /\ cachelock' = 0
                  ELSE /\ TRUE
                       /\ UNCHANGED cachelock
            /\ pc' = [pc EXCEPT ![self] = "R5"]
            /\ UNCHANGED << want, warm, disk, ent, esize, lru, usage, mutex, 
                            exec, found, memoized, outcome, stack, ek, pk, 
                            psize, pkind, victim, gk, rk >>

R5(self) == /\ pc[self] = "R5"
            /\ Assert(disk[rk[self]], 
                      "Failure of assertion at line 112, column 6.")
            /\ IF HasCache
                  THEN /\ pc' = [pc EXCEPT ![self] = "R6"]
                  ELSE /\ pc' = [pc EXCEPT ![self] = "R8"]
            /\ UNCHANGED << want, warm, disk, ent, esize, lru, usage, 
                            cachelock, mutex, exec, found, memoized, outcome, 
                            stack, ek, pk, psize, pkind, victim, gk, rk >>

R6(self) == /\ pc[self] = "R6"
            /\ IF CacheAtomic
                  THEN /\ cachelock \in {0, self}
                       /\ cachelock' = self
                  ELSE /\ TRUE
                       /\ UNCHANGED cachelock
            /\ /\ pk' = [pk EXCEPT ![self] = rk[self]]
               /\ pkind' = [pkind EXCEPT ![self] = "val"]
               /\ psize' = [psize EXCEPT ![self] = VSize[rk[self]]]
               /\ stack' = [stack EXCEPT ![self] = << [ procedure |->  "Put",
                                                        pc        |->  "R7",
                                                        victim    |->  victim[self],
                                                        pk        |->  pk[self],
                                                        psize     |->  psize[self],
                                                        pkind     |->  pkind[self] ] >>
                                                    \o stack[self]]
            /\ victim' = [victim EXCEPT ![self] = 0]
            /\ pc' = [pc EXCEPT ![self] = "P2"]
            /\ UNCHANGED << want, warm, disk, ent, esize, lru, usage, mutex, 
                            exec, found, memoized, outcome, ek, gk, rk >>

R7(self) == /\ pc[self] = "R7"
            /\ IF CacheAtomic
                  THEN /\ cachelock' = 0
                  ELSE /\ TRUE
                       /\ UNCHANGED cachelock
            /\ pc' = [pc EXCEPT ![self] = "R8"]
            /\ UNCHANGED << want, warm, disk, ent, esize, lru, usage, mutex, 
                            exec, found, memoized, outcome, stack, ek, pk, 
                            psize, pkind, victim, gk, rk >>

R8(self) == /\ pc[self] = "R8"
            /\ pc' = [pc EXCEPT ![self] = Head(stack[self]).pc]
            /\ rk' = [rk EXCEPT ![self] = Head(stack[self]).rk]
            /\ stack' = [stack EXCEPT ![self] = Tail(stack[self])]
            /\ UNCHANGED << want, warm, disk, ent, esize, lru, usage, 
                            cachelock, mutex, exec, found, memoized, outcome, 
                            ek, pk, psize, pkind, victim, gk >>

ReadResult(self) == R1(self) \/ R2(self) \/ R3(self) \/ R3r(self)
                       \/ R4(self) \/ R5(self) \/ R6(self) \/ R7(self)
                       \/ R8(self)

B1(self) == /\ pc[self] = "B1"
            /\ /\ gk' = [gk EXCEPT ![self] = want[self]]
               /\ stack' = [stack EXCEPT ![self] = << [ procedure |->  "GetMemento",
                                                        pc        |->  "B2",
                                                        gk        |->  gk[self] ] >>
                                                    \o stack[self]]
            /\ pc' = [pc EXCEPT ![self] = "G1"]
            /\ UNCHANGED << want, warm, disk, ent, esize, lru, usage, 
                            cachelock, mutex, exec, found, memoized, outcome, 
                            ek, pk, psize, pkind, victim, rk >>

B2(self) == /\ pc[self] = "B2"
            /\ IF found[self]
                  THEN /\ /\ rk' = [rk EXCEPT ![self] = want[self]]
                          /\ stack' = [stack EXCEPT ![self] = << [ procedure |->  "ReadResult",
                                                                   pc        |->  "B3",
                                                                   rk        |->  rk[self] ] >>
                                                               \o stack[self]]
                       /\ pc' = [pc EXCEPT ![self] = "R1"]
                  ELSE /\ pc' = [pc EXCEPT ![self] = "M1"]
                       /\ UNCHANGED << stack, rk >>
            /\ UNCHANGED << want, warm, disk, ent, esize, lru, usage, 
                            cachelock, mutex, exec, found, memoized, outcome, 
                            ek, pk, psize, pkind, victim, gk >>

B3(self) == /\ pc[self] = "B3"
            /\ outcome' = [outcome EXCEPT ![self] = "value"]
            /\ pc' = [pc EXCEPT ![self] = "Fin"]
            /\ UNCHANGED << want, warm, disk, ent, esize, lru, usage, 
                            cachelock, mutex, exec, found, memoized, stack, ek, 
                            pk, psize, pkind, victim, gk, rk >>

M1(self) == /\ pc[self] = "M1"
            /\ mutex[want[self]] \in {0, self}
            /\ mutex' = [mutex EXCEPT ![want[self]] = self]
            /\ pc' = [pc EXCEPT ![self] = "M2"]
            /\ UNCHANGED << want, warm, disk, ent, esize, lru, usage, 
                            cachelock, exec, found, memoized, outcome, stack, 
                            ek, pk, psize, pkind, victim, gk, rk >>

M2(self) == /\ pc[self] = "M2"
            /\ /\ gk' = [gk EXCEPT ![self] = want[self]]
               /\ stack' = [stack EXCEPT ![self] = << [ procedure |->  "GetMemento",
                                                        pc        |->  "M3",
                                                        gk        |->  gk[self] ] >>
                                                    \o stack[self]]
            /\ pc' = [pc EXCEPT ![self] = "G1"]
            /\ UNCHANGED << want, warm, disk, ent, esize, lru, usage, 
                            cachelock, mutex, exec, found, memoized, outcome, 
                            ek, pk, psize, pkind, victim, rk >>

M3(self) == /\ pc[self] = "M3"
            /\ IF found[self]
                  THEN /\ /\ rk' = [rk EXCEPT ![self] = want[self]]
                          /\ stack' = [stack EXCEPT ![self] = << [ procedure |->  "ReadResult",
                                                                   pc        |->  "M4",
                                                                   rk        |->  rk[self] ] >>
                                                               \o stack[self]]
                       /\ pc' = [pc EXCEPT ![self] = "R1"]
                  ELSE /\ pc' = [pc EXCEPT ![self] = "M5"]
                       /\ UNCHANGED << stack, rk >>
            /\ UNCHANGED << want, warm, disk, ent, esize, lru, usage, 
                            cachelock, mutex, exec, found, memoized, outcome, 
                            ek, pk, psize, pkind, victim, gk >>

M4(self) == /\ pc[self] = "M4"
            /\ mutex' = [mutex EXCEPT ![want[self]] = 0]
            /\ outcome' = [outcome EXCEPT ![self] = "value"]
            /\ pc' = [pc EXCEPT ![self] = "Fin"]
            /\ UNCHANGED << want, warm, disk, ent, esize, lru, usage, 
                            cachelock, exec, found, memoized, stack, ek, pk, 
                            psize, pkind, victim, gk, rk >>

M5(self) == /\ pc[self] = "M5"
            /\ exec' = [exec EXCEPT ![want[self]] = exec[want[self]] + 1]
            /\ pc' = [pc EXCEPT ![self] = "M6"]
            /\ UNCHANGED << want, warm, disk, ent, esize, lru, usage, 
                            cachelock, mutex, found, memoized, outcome, stack, 
                            ek, pk, psize, pkind, victim, gk, rk >>

M6(self) == /\ pc[self] = "M6"
            /\ (~CacheAtomic) \/ cachelock \in {0, self}
            /\ IF HasCache /\ ent[want[self]] # "none"
                  THEN /\ lru' = Append(Remove(lru, want[self]), want[self])
                       /\ memoized' = [memoized EXCEPT ![self] = TRUE]
                  ELSE /\ memoized' = [memoized EXCEPT ![self] = disk[want[self]]]
                       /\ lru' = lru
            /\ pc' = [pc EXCEPT ![self] = "M7"]
            /\ UNCHANGED << want, warm, disk, ent, esize, usage, cachelock, 
                            mutex, exec, found, outcome, stack, ek, pk, psize, 
                            pkind, victim, gk, rk >>

M7(self) == /\ pc[self] = "M7"
            /\ IF ~memoized[self]
                  THEN /\ IF HasCache
                             THEN /\ pc' = [pc EXCEPT ![self] = "M7l"]
                             ELSE /\ pc' = [pc EXCEPT ![self] = "M8"]
                  ELSE /\ pc' = [pc EXCEPT ![self] = "M9"]
            /\ UNCHANGED << want, warm, disk, ent, esize, lru, usage, 
                            cachelock, mutex, exec, found, memoized, outcome, 
                            stack, ek, pk, psize, pkind, victim, gk, rk >>

M8(self) == /\ pc[self] = "M8"
            /\ disk' = [disk EXCEPT ![want[self]] = TRUE]
            /\ pc' = [pc EXCEPT ![self] = "M9"]
            /\ UNCHANGED << want, warm, ent, esize, lru, usage, cachelock, 
                            mutex, exec, found, memoized, outcome, stack, ek, 
                            pk, psize, pkind, victim, gk, rk >>

M7l(self) == /\ pc[self] = "M7l"
             /\ IF CacheAtomic
                   THEN /\ cachelock \in {0, self}
                        /\ cachelock' = self
                   ELSE /\ TRUE
                        /\ UNCHANGED cachelock
             /\ /\ pk' = [pk EXCEPT ![self] = want[self]]
                /\ pkind' = [pkind EXCEPT ![self] = "val"]
                /\ psize' = [psize EXCEPT ![self] = VSize[want[self]]]
                /\ stack' = [stack EXCEPT ![self] = << [ procedure |->  "Put",
                                                         pc        |->  "M7u",
                                                         victim    |->  victim[self],
                                                         pk        |->  pk[self],
                                                         psize     |->  psize[self],
                                                         pkind     |->  pkind[self] ] >>
                                                     \o stack[self]]
             /\ victim' = [victim EXCEPT ![self] = 0]
             /\ pc' = [pc EXCEPT ![self] = "P2"]
             /\ UNCHANGED << want, warm, disk, ent, esize, lru, usage, mutex, 
                             exec, found, memoized, outcome, ek, gk, rk >>

M7u(self) == /\ pc[self] = "M7u"
             /\ IF CacheAtomic
                   THEN /\ cachelock' = 0
                   ELSE /\ TRUE
                        /\ UNCHANGED cachelock
             /\ pc' = [pc EXCEPT ![self] = "M8"]
             /\ UNCHANGED << want, warm, disk, ent, esize, lru, usage, mutex, 
                             exec, found, memoized, outcome, stack, ek, pk, 
                             psize, pkind, victim, gk, rk >>

M9(self) == /\ pc[self] = "M9"
            /\ mutex' = [mutex EXCEPT ![want[self]] = 0]
            /\ outcome' = [outcome EXCEPT ![self] = "value"]
            /\ pc' = [pc EXCEPT ![self] = "Fin"]
            /\ UNCHANGED << want, warm, disk, ent, esize, lru, usage, 
                            cachelock, exec, found, memoized, stack, ek, pk, 
                            psize, pkind, victim, gk, rk >>

Fin(self) == /\ pc[self] = "Fin"
             /\ TRUE
             /\ pc' = [pc EXCEPT ![self] = "Done"]
             /\ UNCHANGED << want, warm, disk, ent, esize, lru, usage, 
                             cachelock, mutex, exec, found, memoized, outcome, 
                             stack, ek, pk, psize, pkind, victim, gk, rk >>

T(self) == B1(self) \/ B2(self) \/ B3(self) \/ M1(self) \/ M2(self)
              \/ M3(self) \/ M4(self) \/ M5(self) \/ M6(self) \/ M7(self)
              \/ M8(self) \/ M7l(self) \/ M7u(self) \/ M9(self)
              \/ Fin(self)

(* Allow infinite stuttering to prevent deadlock on termination. *)
Terminating == /\ \A self \in ProcSet: pc[self] = "Done"
               /\ UNCHANGED vars

Next == (\E self \in ProcSet:  \/ Evict(self) \/ Put(self)
                               \/ GetMemento(self) \/ ReadResult(self))
           \/ (\E self \in Threads: T(self))
           \/ Terminating

Spec == /\ Init /\ [][Next]_vars
        /\ \A self \in Threads : /\ WF_vars(T(self))
                                 /\ WF_vars(GetMemento(self))
                                 /\ WF_vars(ReadResult(self))
                                 /\ WF_vars(Put(self))
                                 /\ WF_vars(Evict(self))

Termination == <>(\A self \in ProcSet: pc[self] = "Done")

\* END TRANSLATION

-----------------------------------------------------------------------------
(* Properties (C09)                                                               *)
SingleFlight    == \A k \in Keys : exec[k] <= 1 /\ (k \in warm.store => exec[k] = 0)
NoInternalError == \A t \in Threads : outcome[t] # "error"
CacheConsistent ==      \* whenever nobody is inside a cache method
    (cachelock = 0 /\ CacheAtomic) =>
        /\ usage = SumLru(lru)
        /\ usage <= Budget
        /\ Len(lru) = Cardinality(Range(lru))
        /\ Range(lru) = {k \in Keys : ent[k] # "none"}
Quiescent == AllDone =>
    /\ usage = SumLru(lru) /\ usage <= Budget
    /\ Len(lru) = Cardinality(Range(lru)) /\ Range(lru) = {k \in Keys : ent[k] # "none"}
    /\ \A t \in Threads : disk[want[t]] /\ outcome[t] = "value"
    /\ \A t \in Threads : want[t] \notin warm.store => exec[want[t]] = 1
    /\ \A k \in Keys : mutex[k] = 0
    /\ cachelock = 0
    \* accounting is what a sequential execution leaves: a called key that is resident holds its value
    /\ \A t \in Threads : ent[want[t]] \in {"none", "val"} /\ (ent[want[t]] = "val" => esize[want[t]] = VSize[want[t]])

=============================================================================
