--------------------------- MODULE TraceCheck ---------------------------
(* Generic batched trace validation.  A monitor supplies four operators:        *)
(*   MInit(cfg)   initial monitor state for a trace with configuration cfg      *)
(*   MOk(st, e)   TRUE iff event e (operation, arguments, logged result and      *)
(*                projections) is a step the monitor allows in state st           *)
(*   MStep(st, e) the monitor state after e                                       *)
(*   MWhy(st, e)  the set of names of the clauses of MOk that fail (diagnosis)    *)
(* One TLC run checks many traces: tid is chosen in Init, register tid keeps the  *)
(* longest accepted prefix and the monitor state reached there.  -workers 1.      *)
EXTENDS Naturals, Sequences, FiniteSets, TLC, Json, IOUtils
CONSTANTS MInit(_), MOk(_, _), MStep(_, _), MWhy(_, _)
VARIABLES tid, l, st

(* The trace file is parsed once (ASSUME is evaluated once at start-up) and kept in a   *)
(* TLC register; re-evaluating JsonDeserialize at every reference made validation        *)
(* quadratic (measured: 180 s instead of 3 s for 240 traces of 25 events).               *)
DocReg == 1000000
LoadDoc == TLCSet(DocReg, JsonDeserialize(IOEnv.TRACE_FILE))   \* first conjunct of TraceInit
Doc    == TLCGet(DocReg)
Traces == Doc.traces

TraceInit ==
    /\ LoadDoc
    /\ tid \in 1..Len(Traces)
    /\ l = 0
    /\ st = MInit(Traces[tid].cfg)
    /\ TLCSet(tid, <<0, st>>)

TraceNext ==
    /\ l < Len(Traces[tid].ev)
    /\ LET e == Traces[tid].ev[l + 1] IN MOk(st, e) /\ st' = MStep(st, e)
    /\ l' = l + 1
    /\ UNCHANGED tid
    /\ IF TLCGet(tid)[1] < l' THEN TLCSet(tid, <<l', st'>>) ELSE TRUE

TraceSpec == TraceInit /\ [][TraceNext]_<<tid, l, st>>

(* POSTCONDITION: always TRUE; rejections are reported as printed tuples that the *)
(* harness parses (a rejection is a verdict about the implementation, not a TLC    *)
(* error).                                                                          *)
TraceReport ==
    /\ \A i \in 1..Len(Traces) :
          LET r == TLCGet(i) IN
          \/ r[1] = Len(Traces[i].ev)
          \/ PrintT(<<"REJECT", i, r[1], MWhy(r[2], Traces[i].ev[r[1] + 1]), r[2]>>)
    /\ PrintT(<<"STATS", Len(Traces), 0,
                Cardinality({i \in 1..Len(Traces) : TLCGet(i)[1] # Len(Traces[i].ev)})>>)
=============================================================================
