---- MODULE MCVersion ----
EXTENDS Version
MCRefChoices == [n \in {"f", "g", "h"} |->
                   CASE n = "f" -> {{"a", "h", "v"}, {"a", "v"}}
                     [] n = "g" -> {{"h", "v"}, {"v"}}
                     [] n = "h" -> {{"v"}, {}}]
MCKindChoices == [n \in {"f", "g", "h"} |->
                   CASE n = "f" -> {"mem"} [] n = "g" -> {"mem", "plain"} [] n = "h" -> {"plain"}]
\* for the behaviours replayed on real interpreters: no body mentions a function under two names (the alias and its own), so
\* the open two-symbols finding (KF_OneRulePerKey) is not what the replay compares
SimRefChoices == [n \in {"f", "g", "h"} |->
                   CASE n = "f" -> {{"a", "v"}, {"h", "v"}, {"a"}}
                     [] n = "g" -> {{"h", "v"}, {"v"}}
                     [] n = "h" -> {{"v"}, {}}]
\* behaviour generation for the replay on real interpreters: changes and observations alternate
\* (the kind of change is drawn first, so that re-definitions - which have many parameter combinations - do not crowd out the rest)
MRedefine == \E n \in FnNames, e \in 0..1, d \in 0..1, rs \in UNION {RefChoices[x] : x \in FnNames}, k \in {"mem", "plain"} :
                /\ rs \in RefChoices[n] /\ k \in KindChoices[n]
                /\ text[n].ed + e <= MaxEd /\ text[n].dfl + d <= MaxEd
                /\ Redefine(n, text[n].ed + e, text[n].dfl + d, rs, k)
MKind(k) == CASE k = 1 -> MRedefine
              [] k = 2 -> \E v \in VarNames, x \in -1..MaxVal : SetVar(v, x)
              [] k = 3 -> \E a \in AliasNames, n \in FnNames \ {RootName} : Rebind(a, n)
              [] k = 4 -> \E n \in FnNames : Wrap(n)
              [] k = 5 -> NewProcess
              [] OTHER -> \E b \in BOOLEAN : SetLock(b)
SimMutate == LET k == RandomElement(1..7) IN IF ENABLED MKind(k) THEN MKind(k) ELSE Mutate
SimNext == IF nev % 2 = 0 THEN SimMutate ELSE Observe
====
