---- MODULE MCVersion ----
EXTENDS Version
MCRefChoices == [n \in {"f", "g", "h"} |->
                   CASE n = "f" -> {{"a", "h", "v"}, {"a", "v"}}
                     [] n = "g" -> {{"h", "v"}, {"v"}}
                     [] n = "h" -> {{"v"}, {}}]
MCKindChoices == [n \in {"f", "g", "h"} |->
                   CASE n = "f" -> {"mem"} [] n = "g" -> {"mem", "plain"} [] n = "h" -> {"plain"}]
\* behaviour generation for the replay on real interpreters: changes and observations alternate
SimNext == IF nev % 2 = 0 THEN Mutate ELSE Observe
====
