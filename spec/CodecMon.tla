------------------------------ MODULE CodecMon ------------------------------
(* Property monitor for C11; one event per memento:                                *)
(*   Encode(strict, wireok, rtok, hashok, exc)                                       *)
(*     strict : the emitted text parses with a strict JSON parser (no NaN/Infinity)   *)
(*     wireok : the emitted document equals Wire(m) of Codec.tla (field names, typed    *)
(*              {type, value} arguments, key#version content key; dependency order free) *)
(*     rtok   : decode(encode(m)) is equivalent to m field by field                       *)
(*     hashok : the argument hash recomputed from the decoded arguments equals m's         *)
EXTENDS Naturals, Sequences, TLC
DInit(cfg) == [n |-> 0]
Clauses(st, e) == <<
  <<"encode_and_decode_raise_nothing", e.exc = "">>,
  <<"emitted_document_is_plain_json", e.strict>>,
  <<"document_conforms_to_wire_format", e.strict => e.wireok>>,
  <<"decode_of_encode_is_equivalent_memento", e.exc = "" => e.rtok>>,
  <<"argument_hash_preserved_through_codec", e.exc = "" => e.hashok>> >>
DOk(st, e)  == \A i \in 1..Len(Clauses(st, e)) : Clauses(st, e)[i][2]
DWhy(st, e) == {Clauses(st, e)[i][1] : i \in {j \in 1..Len(Clauses(st, e)) : ~Clauses(st, e)[j][2]}}
DStep(st, e) == [n |-> st.n + 1]
=============================================================================
