INIT TraceInit
NEXT TraceNext
POSTCONDITION TraceReport
CHECK_DEADLOCK FALSE
