------------------------------ MODULE NamesMon ------------------------------
(* Property monitor for C12.                                                          *)
(*   Parse(name, cluster, module, function, hasver, version, exc)   what                *)
(*        parse_qualified_name returned for the qualified name of a real function          *)
(*   Find(by, ok, exc)   an entry stored under such a name is found again by                *)
(*        call | memento | list_mementos | list_functions                                    *)
(*   Evolve(kind, served, same, memento, extok, listok, exc)   after the code base changed     *)
(*        (callee edited / removed / re-clustered) with the caller's version pinned:            *)
(*        the caller is served unchanged, its memento is readable, references to vanished        *)
(*        versions are reported external (extok), listings work                                   *)
EXTENDS QNameDef
NInit(cfg) == [n |-> 0]
Clauses(st, e) ==
  CASE e.op = "Parse" -> <<
         <<"parsing_raises_nothing", e.exc = "">>,
         <<"qualified_name_splits_back_into_its_parts",
             e.exc = "" => LET q == Parts(e.name) IN
                 /\ q.cluster = e.cluster /\ q.module = e.module /\ q.function = e.function
                 /\ q.hasver = e.hasver /\ q.version = e.version>> >>
    [] e.op = "Find" -> <<
         <<"lookup_raises_nothing", e.exc = "">>,
         <<"stored_entry_found_again", e.ok>> >>
    [] e.op = "Evolve" -> <<
         <<"reading_stored_metadata_never_raises", e.exc = "">>,
         <<"entry_with_current_own_version_is_served", e.served /\ e.same>>,
         <<"memento_of_pinned_caller_readable", e.memento>>,
         <<"references_to_vanished_versions_reported_external", e.extok>>,
         <<"listings_work", e.listok>> >>
    [] OTHER -> << <<"known_event", FALSE>> >>
NOk(st, e)  == \A i \in 1..Len(Clauses(st, e)) : Clauses(st, e)[i][2]
NWhy(st, e) == {Clauses(st, e)[i][1] : i \in {j \in 1..Len(Clauses(st, e)) : ~Clauses(st, e)[j][2]}}
NStep(st, e) == [n |-> st.n + 1]
=============================================================================
