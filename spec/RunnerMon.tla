------------------------------ MODULE RunnerMon ------------------------------
(* Property monitor for the runner-level properties, over programs of ProgSem:      *)
(*   C02  memoization is transparent, bodies run once per distinct call             *)
(*   C10  provenance (invocations, resources, dependency set) is exact and           *)
(*        independent of what was memoized before                                     *)
(*   C15  batch evaluation equals element-wise evaluation, in order                   *)
(*   C16  context arguments key results and flow to nested calls                      *)
(* cfg = [prog, prop]; only the clauses of cfg.prop are enforced, the state (the set   *)
(* of memoized keys) evolves by the reference semantics regardless.                    *)
(* Events (root operations issued by the driver, with what the real code did):         *)
(*   Call(f, a, c, mod, out, ran, mem)      mod "normal" | "local" | "ignore"           *)
(*   Batch(f, args, c, rf, out, ran, mem)   call_batch / map_over_range                 *)
(*   Forget(f, a, c, mem)   ForgetAll(f, mem)                                           *)
(*   ForgetExc(f, a, c, mem)   memento(f, a, c).forget_exceptions_recursively()           *)
(*   Par(calls, outs, ran, mem)   the root calls <<f, a, c>> of calls made at the same time by  *)
(*        one thread each, under some schedule; outs: their outcomes in the order of calls      *)
(* out: the outcome as nested tuples; ran: <<f, a>> of every body that started, in      *)
(* order; mem: projection of every memento present afterwards in the key universe.      *)
EXTENDS ProgSem

\* cfg.store = "null": nothing is ever memoized; cfg.runner = "null": nothing ever executes
NInit(cfg) == [P |-> cfg.prog, prop |-> cfg.prop, memo |-> {}, store |-> cfg.store, runner |-> cfg.runner]
Same(x, y) == ToString(x) = ToString(y)
Key(e) == <<e.f, e.a, e.c>>

\* concurrent root calls: the store and the bodies run are those of making the calls one after the other
RECURSIVE ParFold(_, _, _, _)
ParFold(P, memo, calls, i) ==
  IF i > Len(calls) THEN [memo |-> memo, ran |-> <<>>]
  ELSE LET r    == Run(P, memo, calls[i][1], calls[i][2], calls[i][3])
           rest == ParFold(P, r.memo, calls, i + 1)
       IN [memo |-> rest.memo, ran |-> r.ran \o rest.ran]
BagOf(s) == [x \in SeqToSet(s) |-> Cardinality({i \in 1..Len(s) : s[i] = x})]

After(st, e) ==
  CASE st.runner = "null" -> [memo |-> st.memo, ran |-> <<>>]
    [] st.store = "null" /\ e.op = "Call" -> [memo |-> {}, ran |-> RunNS(st.P, e.f, e.a, e.c)]
    [] st.store = "null" /\ e.op = "Batch" ->
         LET RECURSIVE Each(_)
             Each(j) == IF j > Len(e.args) THEN <<>> ELSE RunNS(st.P, e.f, e.args[j], e.c) \o Each(j + 1)
         IN [memo |-> {}, ran |-> Each(1)]
    [] e.op = "Prevent"   -> [memo |-> st.memo \cup {Key(e)}, ran |-> IF Key(e) \in st.memo THEN <<>> ELSE <<<<e.f, e.a>>>>]
    [] e.op = "Par"       -> ParFold(st.P, st.memo, e.calls, 1)
    [] e.op = "Call"      -> Run(st.P, st.memo, e.f, e.a, e.c)
    [] e.op = "Batch"     -> RunBatch(st.P, st.memo, e.f, e.args, e.c)
    [] e.op = "Forget"    -> [memo |-> st.memo \ {Key(e)}, ran |-> <<>>]
    [] e.op = "ForgetAll" -> [memo |-> {k \in st.memo : k[1] # e.f}, ran |-> <<>>]
    [] e.op = "ForgetExc" -> [memo |-> st.memo \ ExcClosure(st.P, st.memo, {Key(e)}, {}), ran |-> <<>>]
    [] OTHER              -> [memo |-> st.memo, ran |-> <<>>]

ExpCallOut(st, e) ==
  LET d == Den(st.P, e.f, e.a, e.c) IN
  IF e.mod = "ignore" /\ d.out = "V" THEN <<"N">> ELSE d.val

ExpBatchOut(st, e) ==
  LET ds   == [j \in 1..Len(e.args) |-> Den(st.P, e.f, e.args[j], e.c)]
      errs == {j \in 1..Len(e.args) : ds[j].out # "V"}
      \* (a batch made through ignore_result(): None in the slots of the elements that succeeded, failures as ever)
      ign  == "mod" \in DOMAIN e /\ e.mod = "ignore"
  IN IF e.rf /\ errs # {} THEN ds[CHOOSE j \in errs : \A k \in errs : j <= k].val
     ELSE <<"L", [j \in 1..Len(e.args) |-> IF ign /\ ds[j].out = "V" THEN <<"N">> ELSE ds[j].val]>>

MemKeys(e) == {e.mem[i].k : i \in 1..Len(e.mem)}
MemOk(st, e, field) ==
  e.op = "Prevent" \/        \* the prevented call stores a truncated run; judged by its own clauses only
  \A i \in 1..Len(e.mem) :
     LET m == e.mem[i]
         d == Den(st.P, m.k[1], m.k[2], m.k[3]) IN
     CASE field = "invs" -> Same(m.invs, d.invs)
       [] field = "ctx"  -> Same([j \in 1..Len(m.invs) |-> m.invs[j][3]], [j \in 1..Len(d.invs) |-> d.invs[j][3]])
       [] field = "res"  -> Same(m.res, d.res)
       [] field = "deps" -> SeqToSet(m.deps) = d.deps /\ Len(m.deps) = Cardinality(d.deps)
       [] field = "out"  -> m.out = d.out

En(st, props) == st.prop = "all" \/ st.prop \in props

Clauses(st, e) ==
  LET post == After(st, e) IN
  (IF st.runner = "null" THEN <<
      <<"null_runner_never_executes_a_body", {"C19"}, ~En(st, {"C19"}) \/ e.ran = <<>> >>,
      <<"null_runner_refuses_with_runtime_error", {"C19"}, ~En(st, {"C19"}) \/ (e.op \in {"Call", "Batch"} => Same(e.out, <<"X", "RuntimeError">>))>> >>
   ELSE IF e.op = "Prevent" THEN <<
      <<"prevented_nested_calls_fail_with_runtime_error", {"C16"}, ~En(st, {"C16"}) \/ Same(e.out, IF Key(e) \in st.memo THEN Den(st.P, e.f, e.a, e.c).val ELSE DenPrevent(st.P, e.f, e.a))>>,
      <<"prevented_nested_calls_do_not_execute", {"C16"}, ~En(st, {"C16"}) \/ Same(e.ran, post.ran)>> >>
   ELSE IF e.op = "Call" THEN <<
      <<"call_outcome_equals_unmemoized_execution", {"C02"}, ~En(st, {"C02"}) \/ (e.exc = "" /\ Same(e.out, ExpCallOut(st, e)))>>,
      <<"bodies_run_exactly_once_per_unmemoized_call", {"C02", "C16", "C19"}, ~En(st, {"C02", "C16", "C19"}) \/ Same(e.ran, post.ran)>> >>
   ELSE IF e.op = "Par" THEN <<
      <<"concurrent_callers_receive_the_unmemoized_outcome", {"C02", "C10", "C16"}, ~En(st, {"C02", "C10", "C16"}) \/
           (e.exc = "" /\ \A i \in 1..Len(e.calls) : Same(e.outs[i], Den(st.P, e.calls[i][1], e.calls[i][2], e.calls[i][3]).val))>>,
      <<"each_unmemoized_body_runs_exactly_once_whatever_the_schedule", {"C02", "C10", "C16"}, ~En(st, {"C02", "C10", "C16"}) \/
           BagOf(e.ran) = BagOf(post.ran)>> >>
   ELSE IF e.op = "Batch" THEN <<
      <<"batch_result_equals_elementwise_results_in_order", {"C15"}, ~En(st, {"C15"}) \/ (e.exc = "" /\ Same(e.out, ExpBatchOut(st, e)))>>,
      <<"batch_runs_each_unmemoized_distinct_element_once", {"C15"}, ~En(st, {"C15"}) \/ Same(e.ran, post.ran)>> >>
   ELSE IF e.op = "ForgetExc" THEN <<
      \* (beyond the listed properties: enforced only for cfg.prop = "EXT" and in the lock step with Runner)
      <<"forget_exceptions_recursively_forgets_exactly_the_failed_calls_beneath", {"EXT"}, ~En(st, {"EXT"}) \/ (e.exc = "" /\ MemKeys(e) = post.memo)>>,
      <<"forget_exceptions_recursively_runs_nothing", {"EXT"}, ~En(st, {"EXT"}) \/ e.ran = <<>> >> >>
   ELSE << <<"operation_raises_nothing", {"C02", "C15"}, ~En(st, {"C02", "C15"}) \/ e.exc = "">> >>)
  \o <<
      <<"null_storage_never_memoizes", {"C19"}, ~En(st, {"C19"}) \/ (st.store = "null" => e.mem = <<>>)>>,
      <<"store_holds_exactly_the_expected_calls", {"C02", "C15", "C16"}, ~En(st, {"C02", "C15", "C16"}) \/ (e.op # "Prevent" => MemKeys(e) = post.memo)>>,
      <<"recorded_result_type_matches_outcome", {"C02"}, ~En(st, {"C02"}) \/ MemOk(st, e, "out")>>,
      <<"invocations_are_the_direct_calls_in_order", {"C10"}, ~En(st, {"C10"}) \/ MemOk(st, e, "invs")>>,
      <<"resources_are_the_handles_obtained", {"C10"}, ~En(st, {"C10"}) \/ MemOk(st, e, "res")>>,
      <<"dependencies_are_the_transitive_closure", {"C10"}, ~En(st, {"C10"}) \/ MemOk(st, e, "deps")>>,
      <<"provenance_recorded_for_every_stored_call", {"C10"}, ~En(st, {"C10"}) \/ (e.op # "Prevent" => MemKeys(e) = post.memo)>>,
      <<"nested_calls_carry_the_expected_context", {"C16"}, ~En(st, {"C16"}) \/ MemOk(st, e, "ctx")>> >>

\* a clause that is not enforced for cfg.prop is vacuously TRUE (and not evaluated: ~En short-circuits)
NOk(st, e)  == \A i \in 1..Len(Clauses(st, e)) : Clauses(st, e)[i][3]
NWhy(st, e) == {Clauses(st, e)[i][1] : i \in {j \in 1..Len(Clauses(st, e)) : ~Clauses(st, e)[j][3]}}
NAllWhy(st, e) == {Clauses(st, e)[i][1] : i \in {j \in 1..Len(Clauses(st, e)) : ~Clauses(st, e)[j][3]}}
NStep(st, e) == [st EXCEPT !.memo = IF st.store = "null" THEN {} ELSE After(st, e).memo]
=============================================================================
