CONSTANTS
  FnNames = {"f", "g", "h"}
  RootName = "f"
  AliasNames = {"a"}
  VarNames = {"v"}
  RefChoices <- MCRefChoices
  KindChoices <- MCKindChoices
  MaxEd = 1
  MaxVal = 1
  MaxObjs = 6
  MaxLocks = 0
  MaxEvents = 4
  KF_DefaultsNotHashed = FALSE
  KF_AdoptCached = TRUE
  KF_AliasBlind = FALSE
  KF_OneRulePerKey = FALSE
INIT Init
NEXT Next
INVARIANT Coherent
INVARIANT Fresh
INVARIANT Deterministic
PROPERTY Frozen
CHECK_DEADLOCK FALSE
