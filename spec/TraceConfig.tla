---- MODULE TraceConfig ----
EXTENDS ConfigMon
VARIABLES tid, l, st
INSTANCE TraceCheck WITH MInit <- MInit0, MOk <- COk, MStep <- CStep, MWhy <- CWhy
====
