---- MODULE TraceVersion ----
EXTENDS VersionMon
VARIABLES tid, l, st
INSTANCE TraceCheck WITH MInit <- VInit, MOk <- VOk, MStep <- VStep, MWhy <- VWhy
====
