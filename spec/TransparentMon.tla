---------------------------- MODULE TransparentMon ----------------------------
(* Property monitor for the value half of C02: for one function returning one      *)
(* given result (a typed term of the documented result domain, or a raised          *)
(* exception) on one backend with one call modifier.                                *)
(*   cfg = [rtype   expected recorded result type (RType of the term, computed by   *)
(*                  the reference classification below from the term's tag)          *)
(*          tag     tag of the term, dtype for arrays                                *)
(*          kind    "value" | "exc" | "nonmemo"                                       *)
(*          cls, rebuild   (kind = "exc") class name; can it be rebuilt from one string *)
(*          mod     "normal" | "local" | "ignore"]                                     *)
(* Events: Call(n, same, isnone, raised, excls, msgok)   n = bodies executed            *)
(*         Disturb (another call writes under the same override key)   Reopen             *)
(*         Memento(rtype)   Forget                                                       *)
EXTENDS Naturals, Sequences, TLC

\* ResultType.from_object, metadata.py:62-114 (bool before int, timestamp before date)
RType(tag, dtype) ==
  CASE tag = "none" -> "null" [] tag = "bool" -> "boolean" [] tag \in {"int", "float"} -> "number"
    [] tag = "str" -> "string" [] tag = "bytes" -> "binary" [] tag = "date" -> "date"
    [] tag \in {"datetime", "pdtimestamp"} -> "timestamp" [] tag = "list" -> "list_result" [] tag = "dict" -> "dictionary"
    [] tag = "nd" -> (CASE dtype = "bool" -> "array_boolean" [] OTHER -> "array_" \o dtype)
    [] tag = "index" -> "index" [] tag = "series" -> "series" [] tag = "frame" -> "data_frame"
    [] tag = "partition" -> "partition" [] OTHER -> "unsupported"

TInit(cfg) == [c |-> cfg, stored |-> FALSE]

Clauses(st, e) ==
  LET c == st.c IN
  CASE e.op = "Call" /\ c.kind = "value" -> <<
         <<"body_runs_exactly_once_per_distinct_call", e.n = IF st.stored THEN 0 ELSE 1>>,
         <<"call_raises_nothing", ~e.raised>>,
         <<"value_equal_and_of_same_type_as_returned_by_body", (~e.raised) => IF c.mod = "ignore" THEN e.isnone ELSE e.same>> >>
    [] e.op = "Call" /\ c.kind = "exc" -> <<
         <<"body_runs_exactly_once_per_distinct_call", e.n = IF st.stored THEN 0 ELSE 1>>,
         <<"exception_is_raised_again", e.raised>>,
         <<"replayed_with_same_class_or_memoized_exception_type",
             e.raised => e.excls = IF st.stored /\ ~c.rebuild THEN "MementoException" ELSE c.cls>>,
         <<"original_message_preserved", e.raised => e.msgok>> >>
    [] e.op = "Call" /\ c.kind = "nonmemo" -> <<
         <<"not_to_be_memoized_exception_never_recorded", e.n = 1>>,
         <<"exception_is_raised_again", e.raised /\ e.excls = c.cls>> >>
    [] e.op = "Memento" -> <<
         <<"recorded_result_type_matches_value",
             e.rtype = IF ~st.stored THEN "none" ELSE IF c.kind = "exc" THEN "exception" ELSE RType(c.tag, c.dtype)>> >>
    [] e.op = "Forget" -> << <<"forget_raises_nothing", e.exc = "">> >>
    \* another call published a different result under the same override key / a new backend object was opened: no
    \* business of this call, whose later results must be what they were
    [] e.op \in {"Disturb", "Reopen"} -> << <<"unrelated_operation_raises_nothing", e.exc = "">> >>
    [] OTHER -> << <<"known_event", FALSE>> >>

TOk(st, e)  == \A i \in 1..Len(Clauses(st, e)) : Clauses(st, e)[i][2]
TWhy(st, e) == {Clauses(st, e)[i][1] : i \in {j \in 1..Len(Clauses(st, e)) : ~Clauses(st, e)[j][2]}}
TStep(st, e) ==
  CASE e.op = "Call" /\ st.c.kind # "nonmemo" -> [st EXCEPT !.stored = TRUE]
    [] e.op = "Forget" -> [st EXCEPT !.stored = FALSE]
    [] OTHER -> st
=============================================================================
