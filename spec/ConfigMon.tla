------------------------------ MODULE ConfigMon ------------------------------
(* Property monitor for C18.  cfg.env is the abstract environment.  Events:          *)
(*   Probe(cluster, how, found, repo, b, exc)   behavioural probe of cluster name       *)
(*      realised through delivery form how ("ctor" | "dict" | "json" | "yaml" | "dump"):   *)
(*      found: the name resolves; repo: index of the repository whose store received the    *)
(*      data (0 if not observable); dpid / mpid: the configured directory in which result       *)
(*      objects / mementos appeared (0: none); b: the observed behaviour record                *)
(*   Repo(where, repo)   append_repo / prepend_repo of a repository on the live environment     *)
EXTENDS ConfigDef
MInit0(cfg) == [env |-> cfg.env]
Clauses(st, e) ==
  IF e.op = "Repo" THEN <<>> ELSE
  LET r == Resolve(st.env, e.cluster) IN
  IF r = <<>> THEN << <<"undefined_cluster_resolves_to_nothing", ~e.found>> >>
  ELSE LET want == Behaviour(r[2]) IN <<
    <<"probe_raises_nothing_unexpected", e.exc = "">>,
    <<"cluster_name_resolves", e.found>>,
    <<"first_repository_in_priority_order_wins", e.repo \in {0, r[1]}>>,
    <<"runner_type_honoured", e.b.runs = want.runs>>,
    <<"storage_type_and_readonly_flag_honoured", e.b.stores = want.stores /\ e.b.rejects = want.rejects>>,
    <<"path_honoured", e.b.datafiles = want.datafiles /\ (want.datafiles => e.dpid = r[2].path)>>,
    <<"metadata_path_honoured", e.b.metasep = want.metasep
                                /\ (want.datafiles => e.mpid = (IF r[2].meta # 0 THEN r[2].meta ELSE r[2].path))>>,
    <<"memory_cache_size_honoured", e.destructive => e.b.cached = want.cached>> >>
COk(st, e)  == \A i \in 1..Len(Clauses(st, e)) : Clauses(st, e)[i][2]
CWhy(st, e) == {Clauses(st, e)[i][1] : i \in {j \in 1..Len(Clauses(st, e)) : ~Clauses(st, e)[j][2]}}
CStep(st, e) == IF e.op # "Repo" THEN st
                ELSE [env |-> IF e.where = "append" THEN Append(st.env, e.repo) ELSE <<e.repo>> \o st.env]
=============================================================================
