---- MODULE MCStore ----
EXTENDS Store
\* value alphabet of the exhaustive configurations (sizes in bytes)
\*   1 small (not weak-referencable)   2 small, weak-referencable   3 large
\*   4 oversize, weak-referencable     5 None (null strategy: nothing stored)
MCSize  == <<100, 120, 250, 500, 16>>
MCBytes == <<1, 2, 3, 4, 0>>
MCWeak  == <<FALSE, TRUE, FALSE, TRUE, FALSE>>
\* quick alphabet: small weak, large, oversize weak, None
QSize   == <<120, 250, 500, 16>>
QBytes  == <<1, 2, 3, 0>>
QWeak   == <<TRUE, FALSE, TRUE, FALSE>>
Depth5 == TLCGet("level") <= 5
Depth6 == TLCGet("level") <= 6
Depth7 == TLCGet("level") <= 7
Depth9 == TLCGet("level") <= 9
====
