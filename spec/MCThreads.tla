---- MODULE MCThreads ----
EXTENDS Threads
\* scenarios: same key / different keys  x  cold store / warm store + cold cache / warm cache
W2 == { (1 :> 1 @@ 2 :> 1), (1 :> 1 @@ 2 :> 2) }
W3 == { (1 :> 1 @@ 2 :> 1 @@ 3 :> 1), (1 :> 1 @@ 2 :> 2 @@ 3 :> 1), (1 :> 1 @@ 2 :> 2 @@ 3 :> 3) }
MCWarms == { [store |-> {}, cache |-> <<>>],
             [store |-> {1, 2, 3}, cache |-> <<>>],
             [store |-> {1, 2, 3}, cache |-> <<1>>],
             [store |-> {1, 2, 3}, cache |-> <<1, 2>>],
             [store |-> {1}, cache |-> <<>>] }
MCWarmsNoCache == {w \in MCWarms : w.cache = <<>>}
MCVSize == <<2, 2, 3>>
====
