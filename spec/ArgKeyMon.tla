------------------------------ MODULE ArgKeyMon ------------------------------
(* Property monitor for C04 over one group = one signature with one binding of      *)
(* argument values, exercised through several equivalent call presentations.          *)
(* Events:                                                                             *)
(*   Key(pres, keyok)     keyok: the argument hash the implementation computes for      *)
(*                        this presentation equals SHA-256 of the canonical text that    *)
(*                        ArgKey.tla produced for it                                      *)
(*   Call(pres, n, recvok, exc)   a call with presentation pres executed n bodies and     *)
(*                        the body received exactly the (normalized) bound values         *)
(*   Variant(what, n, exc)  a call that differs from the group in one value's type or in   *)
(*                        the context arguments executed n bodies                           *)
(*   Nested(ctx, at, n)     a call of top -> mid -> leaf entered at `at` under the context       *)
(*                        dictionary ctx ("A" | "B" | "none"): the body of leaf ran n times: once     *)
(*                        for every context dictionary, wherever the chain is entered                  *)
EXTENDS Naturals, Sequences, TLC

AInit(cfg) == [called |-> FALSE, seen |-> {}]
Clauses(st, e) ==
  CASE e.op = "Key" -> <<
         <<"key_is_sha256_of_canonical_json_of_effective_kwargs", e.keyok>> >>
    [] e.op = "Call" -> <<
         <<"call_raises_nothing", e.exc = "">>,
         <<"equivalent_presentations_share_one_memoized_result", e.n = IF st.called THEN 0 ELSE 1>>,
         <<"body_receives_exactly_the_normalized_bound_values", e.n = 1 => e.recvok>> >>
    [] e.op = "Variant" -> <<
         <<"call_raises_nothing", e.exc = "">>,
         <<"different_value_type_or_context_is_a_different_call", e.n = 1>> >>
    [] e.op = "Nested" -> <<
         <<"call_raises_nothing", e.exc = "">>,
         <<"context_arguments_of_the_caller_key_the_nested_calls", e.n = IF e.ctx \in st.seen THEN 0 ELSE 1>> >>
    [] OTHER -> << <<"known_event", FALSE>> >>
AOk(st, e)  == \A i \in 1..Len(Clauses(st, e)) : Clauses(st, e)[i][2]
AWhy(st, e) == {Clauses(st, e)[i][1] : i \in {j \in 1..Len(Clauses(st, e)) : ~Clauses(st, e)[j][2]}}
AStep(st, e) == IF e.op = "Call" THEN [st EXCEPT !.called = TRUE]
                ELSE IF e.op = "Nested" THEN [st EXCEPT !.seen = @ \cup {e.ctx}] ELSE st
=============================================================================
