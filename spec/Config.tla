------------------------------- MODULE Config -------------------------------
(* Laws of ConfigDef checked by TLC over the option matrix (C18). *)
EXTENDS ConfigDef
CONSTANT FullArgs      \* TRUE: every combination of explicit arguments; FALSE: at most one explicit argument
VARIABLES opts, args
Vals(k) == CASE k = "stype" -> {"filesystem", "memory", "null"} [] k = "path" -> {1, 2} [] k = "meta" -> {0, 3}
             [] k = "cache" -> {0, 1} [] k = "ro" -> {TRUE, FALSE} [] k = "rtype" -> {"local", "null"}
O(k) == {<<>>} \cup {<<v>> : v \in Vals(k)}
Opt == [stype : O("stype"), path : O("path"), meta : O("meta"), cache : O("cache"), ro : O("ro"), rtype : O("rtype")]
Init == opts \in Opt /\ args \in (IF FullArgs THEN Opt ELSE {a \in Opt : Cardinality({k \in Keys : IsSet(a[k])}) <= 1})
Next == UNCHANGED <<opts, args>>
ArgumentOverridesFile == \A k \in Keys : IsSet(args[k]) => Effective(opts, args)[k] = args[k][1]
FileHonoured == \A k \in Keys : (~IsSet(args[k]) /\ IsSet(opts[k])) => Effective(opts, args)[k] = opts[k][1]
DumpLoadEquivalent == Behaviour(Load(Dump(Effective(opts, args)))) = Behaviour(Effective(opts, args))
FirstRepositoryWins ==
  LET c1 == [name |-> "k", opts |-> opts, args |-> args]
      c2 == [name |-> "k", opts |-> args, args |-> opts]
  IN /\ Resolve(<< <<c1>>, <<c2>> >>, "k") = <<1, Effective(opts, args)>>
     /\ Resolve(<< <<c2>>, <<c1>> >>, "k") = <<1, Effective(args, opts)>>
     /\ Resolve(<< <<c1>> >>, "other") = <<>>
=============================================================================
