------------------------------- MODULE Codec -------------------------------
(* Reference definition for C11: the cross-language wire format of a memento.     *)
(* Wire(m) is the document as a TLA+ structure (records = JSON objects, sequences   *)
(* = arrays); what TLA+ cannot hold is written as a marker the harness converts:      *)
(*   [num |-> lex]  a JSON number with that lexical form      NULL  JSON null          *)
(*   EMPTYOBJ       an object without members                                            *)
(* Typed argument terms are those of ArgKey (none | bool | int | float | str | date |    *)
(* datetime | list | dict | fnref); datetimes carry base and off separately so that the   *)
(* "+00:00 is written as Z" rule lives here.                                               *)
EXTENDS Naturals, Sequences, FiniteSets, TLC, Json, IOUtils

NULL == "$null"
EMPTYOBJ == [k \in {"$emptyobj"} |-> TRUE]
Num(lex) == [num |-> lex]
EncTime(base, off) == base \o (IF off = "+00:00" THEN "Z" ELSE off)

\* entries <<[k, v]>> -> record (object); k are plain strings here
ObjOf(es, F(_)) == IF es = <<>> THEN EMPTYOBJ
                   ELSE [k \in {es[i].k : i \in 1..Len(es)} |-> F((es[CHOOSE i \in 1..Len(es) : es[i].k = k /\ \A j \in (i + 1)..Len(es) : es[j].k # k]).v)]

RECURSIVE WireArg(_)
WireFnRef(f) == [qualifiedName |-> f.qn,
                 partialArgs |-> [i \in 1..Len(f.pargs) |-> WireArg(f.pargs[i])],
                 partialKwargs |-> ObjOf(f.pkw, WireArg),
                 parameterNames |-> f.params]
WireArg(t) ==
  CASE t.t = "none"  -> [type |-> "null"]
    [] t.t = "bool"  -> [type |-> "boolean", value |-> t.v]
    [] t.t = "str"   -> [type |-> "string", value |-> t.s]
    [] t.t \in {"int", "float"} -> [type |-> "number", value |-> Num(t.lex)]
    [] t.t = "list"  -> [type |-> "list_result", value |-> [i \in 1..Len(t.v) |-> WireArg(t.v[i])]]
    [] t.t = "dict"  -> [type |-> "dictionary", value |-> ObjOf(t.es, WireArg)]
    [] t.t = "datetime" -> [type |-> "timestamp", value |-> EncTime(t.base, t.off)]
    [] t.t = "date"  -> [type |-> "date", value |-> t.iso]
    [] t.t = "fnref" -> [type |-> "twosigma.memento.FunctionReference", value |-> WireFnRef(t)]

WireFwa(x) == [fnReference |-> WireFnRef(x.fn),
               args |-> [i \in 1..Len(x.args) |-> WireArg(x.args[i])],
               kwargs |-> ObjOf(x.kw, WireArg),
               contextArgs |-> ObjOf(x.ctx, WireArg)]
WireRes(r) == [resourceType |-> r.rtype, url |-> r.url, version |-> r.version]

Wire(m) ==
  [time |-> EncTime(m.time.base, m.time.off),
   invocationMetadata |->
      [fnReferenceWithArgs |-> WireFwa(m.fwa),
       invocations |-> [i \in 1..Len(m.invs) |-> WireFwa(m.invs[i])],
       resources |-> [i \in 1..Len(m.res) |-> WireRes(m.res[i])],
       runtimeSeconds |-> Num(m.runtime),
       resultType |-> m.rtype],
   functionDependencies |-> [i \in 1..Len(m.deps) |-> WireFnRef(m.deps[i])],
   runner |-> ObjOf(m.runner, LAMBDA s : s),
   correlationId |-> m.corr,
   contentKey |-> IF m.ck = <<>> THEN NULL ELSE m.ck[1] \o "#" \o m.ck[2]]

(* the decoder's view of the typed argument encoding: the law below is checked on the definition *)
RECURSIVE ArgOf(_)
ArgOf(w) ==
  CASE w.type = "null" -> [t |-> "none"]
    [] w.type = "boolean" -> [t |-> "bool", v |-> w.value]
    [] w.type = "string" -> [t |-> "str", s |-> w.value]
    [] w.type = "number" -> [t |-> "num", lex |-> w.value.num]
    [] w.type = "list_result" -> [t |-> "list", v |-> [i \in 1..Len(w.value) |-> ArgOf(w.value[i])]]
    [] w.type = "dictionary" -> [t |-> "dict", keys |-> DOMAIN w.value \ {"$emptyobj"}]
    [] w.type = "timestamp" -> [t |-> "datetime", text |-> w.value]
    [] w.type = "date" -> [t |-> "date", iso |-> w.value]
    [] w.type = "twosigma.memento.FunctionReference" -> [t |-> "fnref", qn |-> w.value.qualifiedName]
Shape(t) ==     \* what must survive the round trip of one argument (one level)
  CASE t.t = "none" -> [t |-> "none"] [] t.t = "bool" -> [t |-> "bool", v |-> t.v] [] t.t = "str" -> [t |-> "str", s |-> t.s]
    [] t.t \in {"int", "float"} -> [t |-> "num", lex |-> t.lex]
    [] t.t = "list" -> [t |-> "list", v |-> [i \in 1..Len(t.v) |-> ArgOf(WireArg(t.v[i]))]]
    [] t.t = "dict" -> [t |-> "dict", keys |-> {t.es[i].k : i \in 1..Len(t.es)}]
    [] t.t = "datetime" -> [t |-> "datetime", text |-> EncTime(t.base, t.off)]
    [] t.t = "date" -> [t |-> "date", iso |-> t.iso]
    [] t.t = "fnref" -> [t |-> "fnref", qn |-> t.qn]

Cases == JsonDeserialize(IOEnv.TRACE_FILE).cases
VARIABLE done
Init == done = FALSE
Next == /\ ~done /\ done' = TRUE
        /\ LET docs == [i \in 1..Len(Cases) |-> [id |-> Cases[i].id, doc |-> Wire(Cases[i].m)]]
           IN /\ ndJsonSerialize(IOEnv.OUT_FILE, docs)
              /\ Assert(\A i \in 1..Len(Cases) : \A j \in 1..Len(Cases[i].m.fwa.args) :
                            ArgOf(WireArg(Cases[i].m.fwa.args[j])) = Shape(Cases[i].m.fwa.args[j]),
                        "typed {type, value} encoding does not determine the argument (law on the definition)")
              /\ PrintT(<<"WIREDOCS", Len(docs)>>)
=============================================================================
