---- MODULE TraceRunner ----
EXTENDS RunnerMon
VARIABLES tid, l, st
INSTANCE TraceCheck WITH MInit <- NInit, MOk <- NOk, MStep <- NStep, MWhy <- NWhy
====
