---- MODULE MCFsWrite ----
EXTENDS FsWrite
====
