---- MODULE TraceLru ----
EXTENDS LruMon
VARIABLES tid, l, st
INSTANCE TraceCheck WITH MInit <- LInit, MOk <- LOk, MStep <- LStep, MWhy <- LWhy
====
