------------------------------ MODULE RoMon ------------------------------
(* Property monitor for C19: through a backend opened read-only nothing under     *)
(* its storage paths is ever modified, reads keep answering like the dictionary   *)
(* that was there when it was opened, memoize is silently skipped and forget and  *)
(* metadata writes are rejected; the null storage never reports anything as        *)
(* memoized.  Events carry muts (number of mutating filesystem operations under    *)
(* the storage paths during the call) and same (tree digest unchanged).            *)
EXTENDS DictMon

RECURSIVE Load(_, _)
Load(st, pre) == IF pre = <<>> THEN st
                 ELSE Load(DStep(st, Head(pre)), Tail(pre))
\* cfg.pre is a sequence of Memoize / WriteMetadata events describing the pre-populated store
\* cfg.damaged: a pointer file of the store was cut short before it was opened read-only (a writer died): what the calls answer
\* is then not compared with the dictionary, everything else applies
RInit(cfg) == [kind |-> cfg.kind, s |-> Load(DInit(cfg), cfg.pre), damaged |-> cfg.damaged]

Writes   == {"Memoize", "ForgetCall", "ForgetFunction", "ForgetEverything", "WriteMetadata"}
Rejected == {"ForgetCall", "ForgetFunction", "ForgetEverything", "WriteMetadata"}

RClauses(st, e) ==
  IF st.kind = "null" THEN <<
      <<"no_exception", e.op # "ReadResult" => e.exc = "">>,
      <<"null_storage_never_memoized",
          CASE e.op \in {"IsMemoized", "IsAllMemoized"} -> e.ret = FALSE
            [] e.op = "GetMementos" -> \A i \in 1..Len(e.ret) : e.ret[i] = 0
            [] e.op = "ListFunctions" -> e.ret = <<>>
            [] e.op = "ReadMetadata" -> e.ret = 0
            [] e.op = "ReadResult" -> e.exc # ""
            [] OTHER -> TRUE>>,
      <<"nothing_written", e.muts = 0 /\ e.same>> >>
  ELSE <<
      <<"nothing_written_under_storage_paths", e.muts = 0>>,
      <<"store_tree_unchanged", e.same>>,
      <<"memoize_silently_skipped", e.op = "Memoize" => e.exc = "">>,
      <<"forget_and_metadata_write_rejected", e.op \in Rejected => e.exc = "ValueError">>,
      <<"reads_answer_like_the_original_dictionary", (e.op \notin Writes /\ ~st.damaged) => DOk(st.s, e)>> >>

ROk(st, e)  == \A i \in 1..Len(RClauses(st, e)) : RClauses(st, e)[i][2]
RWhy(st, e) == {RClauses(st, e)[i][1] : i \in {j \in 1..Len(RClauses(st, e)) : ~RClauses(st, e)[j][2]}}
                 \cup (IF st.kind # "null" /\ e.op \notin Writes /\ ~st.damaged THEN DWhy(st.s, e) ELSE {})
RStep(st, e) == st
=============================================================================
