------------------------------ MODULE ConfigDef ------------------------------
(* Reference definition for C18.  An environment is a sequence of repositories    *)
(* (priority order); a repository is a sequence of cluster definitions              *)
(*   [name, opts, args]    opts: options as written in the configuration object /     *)
(*                         file, args: explicit constructor arguments (may be absent)  *)
(* Options: stype ("filesystem" | "memory" | "null"), path, meta (0 = same as path),    *)
(* cache (MB, 0 = none), ro (read-only), rtype ("local" | "null").  An option is the       *)
(* sequence <<value>>, or <<>> if absent.                                                     *)
EXTENDS Naturals, Sequences, FiniteSets, TLC

Keys == {"stype", "path", "meta", "cache", "ro", "rtype"}
Default == [stype |-> "filesystem", path |-> 0, meta |-> 0, cache |-> 0, ro |-> FALSE, rtype |-> "local"]
IsSet(x) == x # <<>>
\* explicit arguments override the configuration, which overrides the defaults
Effective(opts, args) == [k \in Keys |-> IF IsSet(args[k]) THEN args[k][1] ELSE IF IsSet(opts[k]) THEN opts[k][1] ELSE Default[k]]

\* a cluster name resolves to the first repository in priority order that defines it, or to nothing
Resolve(env, name) ==
  LET hits == {<<i, j>> \in (1..Len(env)) \X (1..10) : j <= Len(env[i]) /\ env[i][j].name = name} IN
  IF hits = {} THEN <<>>
  ELSE LET first == CHOOSE h \in hits : \A g \in hits : h[1] < g[1] \/ (h[1] = g[1] /\ h[2] >= g[2]) IN
       <<first[1], Effective(env[first[1]][first[2]].opts, env[first[1]][first[2]].args)>>

\* observable behaviour of a cluster with effective options o
Behaviour(o) ==
  LET runs    == o.rtype = "local"
      stores  == runs /\ ~o.ro /\ o.stype # "null"
      onfs    == stores /\ o.stype = "filesystem"
  IN [runs |-> runs,                  \* a call executes the body (else: refused with RuntimeError)
      stores |-> stores,              \* a second call is served without running the body
      datafiles |-> onfs,             \* result objects appear under the data path
      metasep |-> onfs /\ o.meta # 0, \* mementos appear under the separate metadata path, none under the data path
      cached |-> onfs /\ o.cache > 0, \* served from memory after the store's files were removed
      rejects |-> o.ro /\ o.stype # "null"]     \* forget raises
\* dump / load: to_dict() keeps what determines behaviour
Dump(o) == o
Load(d) == d
=============================================================================
