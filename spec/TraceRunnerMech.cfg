CONSTANTS
  Progs <- NoProgs
  BatchArgs <- NoProgs
  AMax = 2
  MaxOps = 100000
INIT TraceInit
NEXT TraceNext
POSTCONDITION TraceReport
CHECK_DEADLOCK FALSE
