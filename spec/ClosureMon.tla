------------------------------ MODULE ClosureMon ------------------------------
(* Property monitor for C14.  cfg.graph is the reference graph of the generated      *)
(* program: a sequence of nodes [name, kind ("mem" | "plain"), refs (names referred    *)
(* to in the body, whatever the syntactic form), hidden (names called dynamically)].    *)
(* Events:                                                                               *)
(*   deps(name, trans, direct, edges)  what dependencies() reports for memento           *)
(*        function name: transitive set, direct set, graph edges <<src, target>>          *)
(*   call(name, exc, passed)           a call of the automatically versioned name; passed: *)
(*                                     memento functions handed to it as arguments         *)
(*   graph(g)                          the reference graph from now on (an alias re-bound)  *)
EXTENDS Naturals, Sequences, FiniteSets, TLC

SeqToSet(s) == {s[i] : i \in 1..Len(s)}
CInit(cfg) == [g |-> cfg.graph]

Names(g) == {g[i].name : i \in 1..Len(g)}
Node(g, n) == g[CHOOSE i \in 1..Len(g) : g[i].name = n]
IsMem(g, n) == n \in Names(g) /\ Node(g, n).kind = "mem"
Succ(g, n) == IF n \in Names(g) THEN SeqToSet(Node(g, n).refs) \cap Names(g) ELSE {}

RECURSIVE ReachFrom(_, _, _, _)
\* nodes reachable from the frontier; with plainOnly the search does not continue beyond a memento function
ReachFrom(g, frontier, seen, plainOnly) ==
  IF frontier = {} THEN seen
  ELSE LET n == CHOOSE x \in frontier : TRUE
           nxt == IF plainOnly /\ IsMem(g, n) THEN {} ELSE Succ(g, n)
       IN ReachFrom(g, (frontier \cup nxt) \ (seen \cup {n}), seen \cup {n}, plainOnly)

\* memento functions reachable from n (n excluded)
Trans(g, n) == {m \in ReachFrom(g, Succ(g, n), {}, FALSE) : IsMem(g, m)} \ {n}
Direct(g, n) == {m \in Succ(g, n) : IsMem(g, m)} \ {n}
\* memento functions n reaches without passing through another memento function
FirstMem(g, n) == {m \in ReachFrom(g, Succ(g, n), {}, TRUE) : IsMem(g, m)} \ {n}
Edges(g, n) == UNION {{<<m, t>> : t \in FirstMem(g, m)} : m \in {n} \cup Trans(g, n)}

\* functions executed by a call of n (static references and hidden dynamic calls)
DynSucc(g, n) == IF n \in Names(g) THEN (SeqToSet(Node(g, n).refs) \cup SeqToSet(Node(g, n).hidden)) \cap Names(g) ELSE {}
RECURSIVE DynReach(_, _, _)
DynReach(g, frontier, seen) ==
  IF frontier = {} THEN seen
  ELSE LET n == CHOOSE x \in frontier : TRUE IN
       DynReach(g, (frontier \cup DynSucc(g, n)) \ (seen \cup {n}), seen \cup {n})
\* some executed memento function calls, dynamically, a memento function outside its static closure
\* (P: memento functions passed as arguments to the root call n -- those n itself may call)
Undeclared(g, n, P) == \E c \in DynReach(g, {n}, {}) : IsMem(g, c) /\
                        \E t \in SeqToSet(Node(g, c).hidden) : IsMem(g, t) /\ t # c /\ t \notin Trans(g, c)
                                                               /\ ~(c = n /\ t \in P)

Clauses(st, e) ==
  CASE e.op = "deps" -> <<
         <<"dependency_query_succeeds", e.exc = "">>,
         <<"transitive_dependencies_are_exactly_the_reachable_memento_functions",
             e.exc = "" => SeqToSet(e.trans) = Trans(st.g, e.name)>>,
         <<"direct_dependencies_are_exactly_those_named_in_the_body",
             e.exc = "" => SeqToSet(e.direct) = Direct(st.g, e.name)>>,
         <<"graph_links_each_memento_function_to_those_reached_without_passing_another",
             e.exc = "" => {<<e.edges[i][1], e.edges[i][2]>> : i \in 1..Len(e.edges)} = Edges(st.g, e.name)>> >>
    [] e.op = "call" -> <<
         <<"call_outside_static_closure_is_refused",
             Undeclared(st.g, e.name, SeqToSet(e.passed)) => e.exc = "UndeclaredDependencyError">>,
         <<"call_inside_static_closure_is_allowed",
             ~Undeclared(st.g, e.name, SeqToSet(e.passed)) => e.exc = "">> >>
    [] e.op \in {"proc", "graph"} -> <<>>
    [] OTHER -> << <<"history_step_executed_without_machinery_error", FALSE>> >>

COk(st, e)  == \A i \in 1..Len(Clauses(st, e)) : Clauses(st, e)[i][2]
CWhy(st, e) == {Clauses(st, e)[i][1] : i \in {j \in 1..Len(Clauses(st, e)) : ~Clauses(st, e)[j][2]}}
\* graph(g): the program changed in the running process (an alias name was re-bound): g is the reference graph from now on
CStep(st, e) == IF e.op = "graph" THEN [g |-> e.graph] ELSE st
=============================================================================
