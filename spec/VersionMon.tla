------------------------------ MODULE VersionMon ------------------------------
(* Property monitors for the versioning properties, over one history of one       *)
(* generated program executed in one or more interpreter processes:                 *)
(*   C01  call(same, exc)      a memoized call returns what the plain twin of the    *)
(*                             CURRENT program returns, or raises the undeclared-     *)
(*                             dependency error                                       *)
(*   C03  query(name, ver), call(ran)   versions identical in every process of an      *)
(*                             unchanged program; later processes execute no body       *)
(*   C13  query(name, ver, truth)  the in-process answer equals what a fresh            *)
(*                             interpreter computes for the resulting program            *)
(* cfg.prop selects the clause group.                                                    *)
EXTENDS Naturals, Sequences, FiniteSets, TLC

VInit(cfg) == [prop |-> cfg.prop, vers |-> <<>>, procs |-> 0]
Known(st, n) == n \in DOMAIN st.vers

Clauses(st, e) ==
  CASE e.op = "call" /\ st.prop = "C01" -> <<
         <<"memoized_call_equals_unmemoized_execution_of_current_program_or_undeclared_dependency",
             (e.exc = "" /\ e.same) \/ e.exc = "UndeclaredDependencyError">> >>
    [] e.op = "call" /\ st.prop = "C03" -> <<
         <<"call_returns_the_value_of_the_program", e.exc = "" /\ e.same>>,
         <<"second_process_of_unchanged_program_executes_no_body", st.procs > 1 => e.ran = <<>> >> >>
    [] e.op = "query" /\ st.prop = "C03" -> <<
         <<"version_query_succeeds", e.exc = "">>,
         <<"version_identical_in_every_process", Known(st, e.name) => st.vers[e.name] = e.ver>> >>
    [] e.op = "query" /\ st.prop = "C13" -> <<
         <<"version_query_succeeds", e.exc = "">>,
         <<"fresh_process_computes_a_version", e.truthexc = "">>,
         <<"version_equals_from_scratch_computation", e.exc = "" /\ e.truthexc = "" => e.ver = e.truth>> >>
    [] e.op \in {"proc", "call", "query", "deps"} -> <<>>
    [] OTHER -> << <<"history_step_executed_without_machinery_error", FALSE>> >>

VOk(st, e)  == \A i \in 1..Len(Clauses(st, e)) : Clauses(st, e)[i][2]
VWhy(st, e) == {Clauses(st, e)[i][1] : i \in {j \in 1..Len(Clauses(st, e)) : ~Clauses(st, e)[j][2]}}
VStep(st, e) ==
  CASE e.op = "proc" -> [st EXCEPT !.procs = @ + 1]
    [] e.op = "query" /\ ~Known(st, e.name) /\ e.exc = "" ->
         [st EXCEPT !.vers = [n \in DOMAIN st.vers \cup {e.name} |-> IF n = e.name THEN e.ver ELSE st.vers[n]]]
    [] OTHER -> st
=============================================================================
