---- MODULE TraceRo ----
EXTENDS RoMon
VARIABLES tid, l, st
INSTANCE TraceCheck WITH MInit <- RInit, MOk <- ROk, MStep <- RStep, MWhy <- RWhy
====
