------------------------------ MODULE DictMon ------------------------------
(* Property monitor for C05: a storage backend answers exactly like a plain     *)
(* dictionary keyed by (function-with-version, argument hash).                   *)
(* Keys are <<f, h>> (interned ids).  A live entry is [mid, v]: the identity of   *)
(* the memento that was written and the digest id of the value written.          *)
(* Events are records with at least op and exc ("" = no exception).              *)
EXTENDS Naturals, Sequences, FiniteSets, TLC

Absent == [mid |-> 0, v |-> 0]
Get(d, k) == IF k \in DOMAIN d THEN d[k] ELSE Absent
Live(d)   == {k \in DOMAIN d : d[k].mid # 0}
Put(d, k, x) == [y \in DOMAIN d \cup {k} |-> IF y = k THEN x ELSE d[y]]
SeqToSet(s) == {s[i] : i \in 1..Len(s)}

DInit(cfg) == [d |-> <<>>, meta |-> <<>>]

Key(e) == <<e.f, e.h>>

\* ---- expected results ------------------------------------------------------
ExpMementos(st, e) == [i \in 1..Len(e.keys) |-> Get(st.d, e.keys[i]).mid]
ExpListFns(st)     == {k[1] : k \in Live(st.d)}
MidsOf(st, f)      == {st.d[k].mid : k \in {x \in Live(st.d) : x[1] = f}}
MetaGet(st, mk)    == IF mk \in DOMAIN st.meta THEN st.meta[mk] ELSE 0

\* ---- named clauses ---------------------------------------------------------
NoExc(e) == e.exc = ""

Clauses(st, e) ==
  CASE e.op = "Memoize"          -> << <<"no_exception", NoExc(e)>> >>
    [] e.op = "GetMementos"      -> << <<"no_exception", NoExc(e)>>,
                                       <<"lookup_returns_last_written_or_none", NoExc(e) => e.ret = ExpMementos(st, e)>> >>
    [] e.op = "ReadResult"       -> << <<"no_exception", NoExc(e)>>,
                                       <<"read_precondition_live_current_memento", Get(st.d, Key(e)).mid = e.mid>>,
                                       <<"read_returns_last_value_written", NoExc(e) => e.ret = Get(st.d, Key(e)).v>> >>
    [] e.op = "IsMemoized"       -> << <<"no_exception", NoExc(e)>>,
                                       <<"is_memoized_iff_live", NoExc(e) => e.ret = (Key(e) \in Live(st.d))>> >>
    [] e.op = "IsAllMemoized"    -> << <<"no_exception", NoExc(e)>>,
                                       <<"all_memoized_iff_all_live", NoExc(e) => e.ret = (SeqToSet(e.keys) \subseteq Live(st.d))>> >>
    [] e.op \in {"ForgetCall", "ForgetFunction", "ForgetEverything"}
                                 -> << <<"no_exception", NoExc(e)>> >>
    [] e.op = "ListFunctions"    -> << <<"no_exception", NoExc(e)>>,
                                       <<"listing_has_no_duplicates", NoExc(e) => Cardinality(SeqToSet(e.ret)) = Len(e.ret)>>,
                                       <<"listing_is_exactly_live_functions", NoExc(e) => SeqToSet(e.ret) = ExpListFns(st)>> >>
    [] e.op = "ListMementos"     -> << <<"no_exception", NoExc(e)>>,
                                       <<"listing_has_no_duplicates", NoExc(e) => Cardinality(SeqToSet(e.ret)) = Len(e.ret)>>,
                                       <<"listed_mementos_are_live_entries_of_f", NoExc(e) => SeqToSet(e.ret) \subseteq MidsOf(st, e.f)>>,
                                       <<"listing_complete_up_to_limit", NoExc(e) =>
                                            LET n == Cardinality(MidsOf(st, e.f)) IN
                                            Len(e.ret) = IF e.limit = 0 \/ e.limit > n THEN n ELSE e.limit>> >>
    [] e.op = "WriteMetadata"    -> << <<"no_exception", NoExc(e)>>,
                                       <<"metadata_precondition_live", Key(e) \in Live(st.d)>> >>
    [] e.op = "ReadMetadata"     -> << <<"no_exception", NoExc(e)>>,
                                       <<"metadata_read_returns_last_written", NoExc(e) => e.ret = MetaGet(st, <<e.f, e.h, e.mk>>)>> >>
    [] e.op = "Reopen"           -> <<>>
    [] OTHER                     -> << <<"known_operation", FALSE>> >>

DOk(st, e)  == \A i \in 1..Len(Clauses(st, e)) : Clauses(st, e)[i][2]
DWhy(st, e) == {Clauses(st, e)[i][1] : i \in {j \in 1..Len(Clauses(st, e)) : ~Clauses(st, e)[j][2]}}

\* ---- state update ----------------------------------------------------------
DropKeys(d, K)    == [k \in DOMAIN d \ K |-> d[k]]
DropMeta(m, K)    == [x \in {y \in DOMAIN m : <<y[1], y[2]>> \notin K} |-> m[x]]

DStep(st, e) ==
  CASE e.op = "Memoize"          -> [st EXCEPT !.d = Put(st.d, Key(e), [mid |-> e.mid, v |-> e.v])]
    [] e.op = "ForgetCall"       -> [d |-> DropKeys(st.d, {Key(e)}), meta |-> DropMeta(st.meta, {Key(e)})]
    [] e.op = "ForgetFunction"   -> LET K == {k \in DOMAIN st.d : k[1] = e.f} IN
                                    [d |-> DropKeys(st.d, K),
                                     meta |-> [x \in {y \in DOMAIN st.meta : y[1] # e.f} |-> st.meta[x]]]
    [] e.op = "ForgetEverything" -> [d |-> <<>>, meta |-> <<>>]
    [] e.op = "WriteMetadata"    -> [st EXCEPT !.meta = Put(st.meta, <<e.f, e.h, e.mk>>, e.b)]
    [] OTHER                     -> st
=============================================================================
