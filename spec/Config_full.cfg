CONSTANT FullArgs = TRUE
INIT Init
NEXT Next
INVARIANT ArgumentOverridesFile
INVARIANT FileHonoured
INVARIANT DumpLoadEquivalent
INVARIANT FirstRepositoryWins
CHECK_DEADLOCK FALSE
