CONSTANTS
  Fns = {"f", "g"}
  MaxCalls = 12
  MaxFaults = 6
  MaxForgets = 6
  FixedReader = TRUE
  LinkBeforeClose = FALSE
INIT TraceInit
NEXT TraceNext
POSTCONDITION TraceReport
CHECK_DEADLOCK FALSE
