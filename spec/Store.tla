------------------------------- MODULE Store -------------------------------
(* Mechanism specification of memento's storage stack (M1):                      *)
(*   StorageBackendBase  = write-through MemoryCache  +  metadata source         *)
(*                         (m/<fn>/<hash>.memento.json) + versioned object store  *)
(*                         (c/<sha256> content keys, override keys, link files).  *)
(* One action per public StorageBackend method; the sub-structure of the code     *)
(* (cache put: weak-ref / oversize bypass / replace / evict-until-fits / append;  *)
(* blob store: CAS reuse / new version / override / null-with-override) is kept.  *)
(* The spec models the INTENDED behaviour; the two deviations found in the pinned *)
(* commit are named disjuncts switched on by KF_OversizeStale / KF_StaleRef, with *)
(* which TLC exhibits the stale read as a counterexample.                          *)
(*                                                                                *)
(* The property monitors DictMon (C05) and LruMon (C06) run in lock step with the *)
(* mechanism: every action produces the event `last` exactly as the conformance   *)
(* harness records it from the real code, and `ok` says whether both monitors      *)
(* accepted every event so far.  Invariant MonOk is therefore "Store refines the   *)
(* labelled monitors".                                                             *)
EXTENDS Naturals, Sequences, FiniteSets, TLC

CONSTANTS Fns, Hs,         \* function ids, argument-hash ids
          NV,              \* values are 1..NV
          Size, Bytes, Weak, \* per value: size in bytes, serialized-bytes class (0 = None), weak-referencable
          Budget,          \* cache budget in bytes (0 = no cache)
          MemSize,         \* size charged for a memento-only entry
          Ovrs,            \* override keys (0 = none)
          MKs,             \* custom metadata keys
          SepMeta,         \* metadata kept under a separate path
          MaxVer, MaxMid,  \* bounds for the exhaustive configuration
          KF_OversizeStale, KF_StaleRef,
          KF_MetaByObject  \* open finding: metadata stored "with the data" is keyed by the result object, not the call

VARIABLES mstore,   \* live mementos: key -> [mid, ck, v] or NoMem
          objs,     \* versioned objects: <<kind, id, ver>> -> bytes class (0 = absent)
          links,    \* pointer files: <<kind, id>> -> current version (0 = absent)
          meta,     \* custom metadata: <<key, mk>> -> [form ("none" | "plain" | "wd"), b (bytes id, 0 = absent)]
                    \*   plain: the value is a file of the metadata store; wd ("with data"): the metadata store holds
                    \*   an empty marker and the value is a file next to the result object of the call's memento
          ometa,    \* metadata files next to result objects: <<object key, mk>> -> bytes id (0 = absent)
          nextVer, nextMid,
          cache,    \* [ent : key -> entry, lru : Seq(key), usage : Nat]
          refs,     \* weak table: key -> value still referenced by the client (0 = none)
          ro,       \* the backend object in use was opened read-only
          last,     \* the event produced by the last action
          dm, lm,   \* monitor states
          ok        \* monitors accepted everything so far

vars == <<mstore, objs, links, meta, ometa, nextVer, nextMid, cache, refs, ro, last, dm, lm, ok>>
view == <<mstore, objs, links, meta, ometa, nextVer, nextMid, cache, refs, ro, dm, lm, ok>>

D == INSTANCE DictMon
L == INSTANCE LruMon
R == INSTANCE RoMon

Keys    == Fns \X Hs
Vals    == 1..NV
BIds    == {Bytes[v] : v \in Vals} \ {0}
ObjKeys == ({"c"} \X BIds \X (1..MaxVer)) \cup ({"o"} \X (Ovrs \ {0}) \X (1..MaxVer))
LinkKeys == ({"c"} \X BIds) \cup ({"o"} \X (Ovrs \ {0}))
NoMem   == [mid |-> 0, ck |-> <<"n", 0, 0>>, v |-> 0]
NoEnt   == [res |-> FALSE, size |-> 0, hasv |-> FALSE, val |-> 0, mid |-> 0]
HasCache == Budget > 0
LiveKeys == {k \in Keys : mstore[k].mid # 0}

Remove(s, x) == SelectSeq(s, LAMBDA y : y # x)

-----------------------------------------------------------------------------
(* MemoryCache, storage_base.py:1171-1291                                        *)
Evict(c, k) ==
    IF c.ent[k].res
    THEN [ent |-> [c.ent EXCEPT ![k] = NoEnt], lru |-> Remove(c.lru, k), usage |-> c.usage - c.ent[k].size]
    ELSE [c EXCEPT !.lru = Remove(c.lru, k)]

RECURSIVE EvictUntilFits(_, _)
EvictUntilFits(c, size) ==
    IF Len(c.lru) > 0 /\ c.usage + size > Budget
    THEN EvictUntilFits(Evict(c, Head(c.lru)), size)
    ELSE c

CPut(c, k, size, hasv, val, mid) ==
    IF size > Budget
    THEN IF KF_OversizeStale THEN c            \* pinned commit: returns before evicting the old entry
         ELSE Evict(c, k)                       \* intended: the old entry for k must not survive
    ELSE LET c1 == EvictUntilFits(Evict(c, k), size) IN
         [ent   |-> [c1.ent EXCEPT ![k] = [res |-> TRUE, size |-> size, hasv |-> hasv, val |-> val, mid |-> mid]],
          lru   |-> Append(c1.lru, k),
          usage |-> c1.usage + size]

RPut(r, k, hasv, val) ==
    IF ~hasv THEN r
    ELSE IF Weak[val] THEN [r EXCEPT ![k] = val]
    ELSE IF KF_StaleRef THEN r                  \* pinned commit: TypeError swallowed, old ref stays
    ELSE [r EXCEPT ![k] = 0]

MarkUsed(c, k) == [c EXCEPT !.lru = Append(Remove(c.lru, k), k)]

Proj(c) == [lru   |-> c.lru,
            ent   |-> [i \in 1..Len(c.lru) |-> [k |-> c.lru[i], size |-> c.ent[c.lru[i]].size, hasv |-> c.ent[c.lru[i]].hasv]],
            usage |-> c.usage]

-----------------------------------------------------------------------------
(* monitors in lock step                                                          *)
Emit(e, c) ==
    LET ev == [e EXCEPT !.proj = Proj(c)] IN
    /\ last' = ev
    /\ dm' = IF ro /\ ev.op \in R!Writes THEN dm ELSE D!DStep(dm, ev)
    /\ lm' = L!LStep(lm, ev)
    /\ ok' = /\ ok
             /\ IF ro THEN R!ROk([kind |-> "fs", s |-> dm, damaged |-> FALSE], ev) ELSE D!DOk(dm, ev)
             /\ HasCache => L!LOk(lm, ev)
    /\ UNCHANGED ro

Ev(op) == [op |-> op, exc |-> "", proj |-> 0, ro |-> ro, muts |-> 0, same |-> TRUE]
Stores == <<mstore, objs, links, meta, ometa, nextVer, nextMid>>
NoMeta == [form |-> "none", b |-> 0]
\* a write attempted through a read-only backend: memoize is skipped, the others raise
RoWrite(e, exc) == /\ ro
                   /\ UNCHANGED <<Stores, cache, refs>>
                   /\ Emit([e EXCEPT !.exc = exc], cache)

-----------------------------------------------------------------------------
Init ==
    /\ mstore = [k \in Keys |-> NoMem]
    /\ objs = [o \in ObjKeys |-> 0]
    /\ links = [x \in LinkKeys |-> 0]
    /\ meta = [x \in Keys \X MKs |-> NoMeta]
    /\ ometa = [x \in ObjKeys \X MKs |-> 0]
    /\ nextVer = 1 /\ nextMid = 1
    /\ cache = [ent |-> [k \in Keys |-> NoEnt], lru |-> <<>>, usage |-> 0]
    /\ refs = [k \in Keys |-> 0]
    /\ last = [op |-> "Init"]
    /\ dm = D!DInit(0)
    /\ lm = L!LInit([budget |-> Budget])
    /\ ok = TRUE
    /\ ro = FALSE

(* StorageBackendBase.memoize, storage_base.py:1420-1438; Codec strategies 327-379 *)
Memoize(k, v, ovr) ==
    LET b   == Bytes[v]
        mid == nextMid
        c1  == IF HasCache THEN CPut(cache, k, Size[v], TRUE, v, mid) ELSE cache
        r1  == IF HasCache THEN RPut(refs, k, TRUE, v) ELSE refs
        br  == IF b = 0 THEN (IF ovr # 0 THEN "null_unlink_override" ELSE "null")
               ELSE IF ovr # 0 THEN "override_new_version"
               ELSE IF links[<<"c", b>>] # 0 THEN "cas_reuse" ELSE "cas_new_version"
        ck  == CASE b = 0 -> <<"n", 0, 0>>
                 [] b # 0 /\ ovr # 0 -> <<"o", ovr, nextVer>>
                 [] b # 0 /\ ovr = 0 /\ links[<<"c", b>>] # 0 -> <<"c", b, links[<<"c", b>>]>>
                 [] OTHER -> <<"c", b, nextVer>>
        newobj == br \in {"override_new_version", "cas_new_version"}
        e0  == Ev("Memoize") @@ [f |-> k[1], h |-> k[2], mid |-> mid, v |-> b, val |-> v,
                                  ovr |-> ovr, size |-> Size[v], br |-> br]
    IN
    \/ RoWrite([e0 EXCEPT !.br = "readonly_skip"], "") /\ nextMid <= MaxMid
    \/ /\ ~ro
       /\ nextMid <= MaxMid
       /\ newobj => nextVer <= MaxVer
       /\ cache' = c1 /\ refs' = r1
       /\ objs' = IF newobj THEN [objs EXCEPT ![ck] = b] ELSE objs
       /\ links' = CASE newobj -> [links EXCEPT ![<<ck[1], ck[2]>>] = nextVer]
                     [] br = "null_unlink_override" -> [links EXCEPT ![<<"o", ovr>>] = 0]
                     [] OTHER -> links
       /\ nextVer' = IF newobj THEN nextVer + 1 ELSE nextVer
       /\ nextMid' = nextMid + 1
       /\ mstore' = [mstore EXCEPT ![k] = [mid |-> mid, ck |-> ck, v |-> v]]
       /\ UNCHANGED <<meta, ometa>>
       /\ Emit(e0, c1)

(* StorageBackendBase.get_mementos, storage_base.py:1339-1367                      *)
RECURSIVE FillMisses(_, _, _)
FillMisses(c, ks, hit) ==
    IF ks = <<>> THEN c
    ELSE LET k == Head(ks) IN
         FillMisses(IF ~Head(hit) /\ mstore[k].mid # 0
                    THEN CPut(c, k, MemSize, FALSE, 0, mstore[k].mid) ELSE c,
                    Tail(ks), Tail(hit))

GetMementos(ks) ==
    LET hit == [i \in 1..Len(ks) |-> HasCache /\ cache.ent[ks[i]].res]
        ret == [i \in 1..Len(ks) |-> IF hit[i] THEN cache.ent[ks[i]].mid ELSE mstore[ks[i]].mid]
        c1  == IF HasCache THEN FillMisses(cache, ks, hit) ELSE cache
    IN
    /\ cache' = c1
    /\ UNCHANGED <<mstore, objs, links, meta, ometa, nextVer, nextMid, refs>>
    /\ Emit(Ev("GetMementos") @@ [keys |-> ks, ret |-> ret], c1)

(* StorageBackendBase.read_result, storage_base.py:1369-1385 (memento = the one    *)
(* the caller got from the store for this key)                                     *)
ReadResult(k) ==
    LET m == mstore[k]
        e == cache.ent[k]
        br == IF HasCache /\ e.res /\ e.hasv THEN "cache_value"
              ELSE IF HasCache /\ ~e.res /\ refs[k] # 0 THEN "weak_ref"
              ELSE "store_load"
        val == CASE br = "cache_value" -> e.val [] br = "weak_ref" -> refs[k] [] OTHER -> m.v
        ret == IF br = "store_load" THEN (IF m.ck[1] = "n" THEN 0 ELSE objs[m.ck]) ELSE Bytes[val]
        c1 == CASE br = "cache_value" -> MarkUsed(cache, k)
                [] br = "weak_ref" -> cache
                [] OTHER -> IF HasCache THEN CPut(cache, k, Size[m.v], TRUE, m.v, m.mid) ELSE cache
        r1 == IF br = "store_load" /\ HasCache THEN RPut(refs, k, TRUE, m.v) ELSE refs
    IN
    /\ m.mid # 0
    /\ cache' = c1 /\ refs' = r1
    /\ UNCHANGED <<mstore, objs, links, meta, ometa, nextVer, nextMid>>
    /\ Emit(Ev("ReadResult") @@ [f |-> k[1], h |-> k[2], mid |-> m.mid, ret |-> ret, size |-> Size[val],
             reads |-> IF br = "store_load" /\ m.ck[1] # "n" THEN 1 ELSE 0, cacheable |-> HasCache, br |-> br], c1)

(* is_memoized / is_all_memoized, storage_base.py:1214-1222, 1394-1410             *)
CacheSays(c, k) == HasCache /\ (c.ent[k].res \/ refs[k] # 0)
IsMemoized(k) ==
    LET c1 == IF HasCache /\ cache.ent[k].res THEN MarkUsed(cache, k) ELSE cache IN
    /\ cache' = c1
    /\ UNCHANGED <<mstore, objs, links, meta, ometa, nextVer, nextMid, refs>>
    /\ Emit(Ev("IsMemoized") @@ [f |-> k[1], h |-> k[2], ret |-> (CacheSays(cache, k) \/ mstore[k].mid # 0)], c1)

RECURSIVE MarkAll(_, _)
MarkAll(c, ks) == IF ks = <<>> THEN c
                  ELSE MarkAll(IF c.ent[Head(ks)].res THEN MarkUsed(c, Head(ks)) ELSE c, Tail(ks))
IsAllMemoized(ks) ==
    LET c1 == IF HasCache THEN MarkAll(cache, ks) ELSE cache
        incache == \A i \in 1..Len(ks) : CacheSays(cache, ks[i])
    IN
    /\ cache' = c1
    /\ UNCHANGED <<mstore, objs, links, meta, ometa, nextVer, nextMid, refs>>
    /\ Emit(Ev("IsAllMemoized") @@ [keys |-> ks,
             ret |-> (incache \/ \A i \in 1..Len(ks) : mstore[ks[i]].mid # 0)], c1)

(* forget_*, storage_base.py:1264-1291, 1032-1048, 1483-1508                        *)
RECURSIVE EvictAll(_, _)
EvictAll(c, S) == IF S = {} THEN c ELSE LET k == CHOOSE x \in S : TRUE IN EvictAll(Evict(c, k), S \ {k})

Forget(S, op, e) ==
    LET c1 == IF HasCache THEN EvictAll(cache, S) ELSE cache IN
    /\ ~ro
    /\ cache' = c1
    /\ refs' = [k \in Keys |-> IF k \in S THEN 0 ELSE refs[k]]
    /\ mstore' = [k \in Keys |-> IF k \in S THEN NoMem ELSE mstore[k]]
    /\ meta' = [x \in Keys \X MKs |-> IF x[1] \in S THEN NoMeta ELSE meta[x]]   \* values and markers in the metadata store
    /\ UNCHANGED <<nextVer, nextMid>>
    /\ Emit(Ev(op) @@ e, c1)

ForgetCall(k)     == \/ Forget({k}, "ForgetCall", [f |-> k[1], h |-> k[2]]) /\ UNCHANGED <<objs, links, ometa>>
                     \/ RoWrite(Ev("ForgetCall") @@ [f |-> k[1], h |-> k[2]], "ValueError")
ForgetFunction(f) == \/ Forget({k \in Keys : k[1] = f}, "ForgetFunction", [f |-> f]) /\ UNCHANGED <<objs, links, ometa>>
                     \/ RoWrite(Ev("ForgetFunction") @@ [f |-> f], "ValueError")
ForgetEverything  ==
    \/ /\ Forget(Keys, "ForgetEverything", [x |-> 0])
       /\ IF SepMeta THEN UNCHANGED <<objs, links, ometa>>     \* only the metadata root is removed
          ELSE objs' = [o \in ObjKeys |-> 0] /\ links' = [x \in LinkKeys |-> 0] /\ ometa' = [x \in ObjKeys \X MKs |-> 0]
    \/ RoWrite(Ev("ForgetEverything") @@ [x |-> 0], "ValueError")

(* listings and custom metadata (never cached)                                      *)
SetToSeq(S) == LET RECURSIVE F(_)
                   F(T) == IF T = {} THEN <<>> ELSE LET x == CHOOSE y \in T : \A z \in T : y <= z IN <<x>> \o F(T \ {x})
               IN F(S)
Quiet(e) == /\ UNCHANGED <<mstore, objs, links, meta, ometa, nextVer, nextMid, cache, refs>>
            /\ Emit(e, cache)

ListFunctions == Quiet(Ev("ListFunctions") @@ [ret |-> SetToSeq({k[1] : k \in LiveKeys})])
ListMementos(f, limit) ==
    LET all == SetToSeq({mstore[k].mid : k \in {x \in LiveKeys : x[1] = f}})
        n   == IF limit = 0 \/ limit > Len(all) THEN Len(all) ELSE limit
    IN Quiet(Ev("ListMementos") @@ [f |-> f, limit |-> limit, ret |-> SubSeq(all, 1, n)])

(* write_metadata, storage_base.py:1494-1513 + DataSourceMetadataSource.write_metadata; wd = put_metadata(...,   *)
(* store_with_data=True): the value goes next to the result object of the call's memento (a None result has      *)
(* none: plain form); writing one form removes the entry of the other form                                       *)
WriteMetadata(k, mk, b, wd) ==
    LET ck   == mstore[k].ck
        form == IF wd /\ ck[1] # "n" THEN "wd" ELSE "plain"
        e    == Ev("WriteMetadata") @@ [f |-> k[1], h |-> k[2], mk |-> mk, b |-> b, wd |-> wd]
    IN
    \/ mstore[k].mid # 0 /\ RoWrite(e, "ValueError")
    \/ /\ ~ro
       /\ mstore[k].mid # 0
       /\ meta' = [meta EXCEPT ![<<k, mk>>] = [form |-> form, b |-> b]]
       /\ ometa' = IF form = "wd" THEN [ometa EXCEPT ![<<ck, mk>>] = b] ELSE ometa
       /\ UNCHANGED <<mstore, objs, links, nextVer, nextMid, cache, refs>>
       /\ Emit(e, cache)
(* read_metadata, storage_base.py:1468-1492: a plain entry is read from the metadata store; for a marker the       *)
(* call's memento is looked up (through the cache, like get_mementos) and the value read next to its object.        *)
(* Intended: the last value written for the call.  KF_MetaByObject (pinned behaviour): whatever lies next to the    *)
(* object the call's memento names NOW - nothing after a re-memoize, another call's value when the object is shared *)
ReadMetadata(k, mk) ==
    LET m   == meta[<<k, mk>>]
        hit == HasCache /\ cache.ent[k].res
        c1  == IF m.form = "wd" /\ HasCache THEN FillMisses(cache, <<k>>, <<hit>>) ELSE cache
        ck  == mstore[k].ck
        e   == Ev("ReadMetadata") @@ [f |-> k[1], h |-> k[2], mk |-> mk, ret |-> m.b]
    IN
    /\ cache' = c1
    /\ UNCHANGED <<mstore, objs, links, meta, ometa, nextVer, nextMid, refs>>
    /\ IF m.form = "wd" /\ KF_MetaByObject
       THEN IF mstore[k].mid = 0 THEN Emit([e EXCEPT !.exc = "OSError", !.ret = 0], c1)
            ELSE IF ck[1] = "n" THEN Emit([e EXCEPT !.exc = "AttributeError", !.ret = 0], c1)
            ELSE IF ometa[<<ck, mk>>] = 0 THEN Emit([e EXCEPT !.exc = "FileNotFoundError", !.ret = 0], c1)
            ELSE Emit([e EXCEPT !.ret = ometa[<<ck, mk>>]], c1)
       ELSE Emit(e, c1)

(* the client drops its reference to a returned value: the weak table forgets it    *)
Gc(k) ==
    /\ refs[k] # 0
    /\ refs' = [refs EXCEPT ![k] = 0]
    /\ UNCHANGED <<mstore, objs, links, meta, ometa, nextVer, nextMid, cache, ro, dm, lm, ok>>
    /\ last' = [op |-> "Gc", f |-> k[1], h |-> k[2]]

(* a new backend object is opened on the same store, read-write or read-only: cold cache *)
Reopen(r) ==
    /\ ro' = r
    /\ cache' = [ent |-> [k \in Keys |-> NoEnt], lru |-> <<>>, usage |-> 0]
    /\ refs' = [k \in Keys |-> 0]
    /\ lm' = L!LInit([budget |-> Budget])
    /\ UNCHANGED <<Stores, dm, ok>>
    /\ last' = [op |-> "Reopen", ro |-> r]

KeySeqs == {<<k>> : k \in Keys} \cup {<<a, b>> : a \in Keys, b \in Keys}

Next ==
    \/ \E k \in Keys, v \in Vals, o \in Ovrs : Memoize(k, v, o)
    \/ \E ks \in KeySeqs : GetMementos(ks) \/ IsAllMemoized(ks)
    \/ \E k \in Keys : ReadResult(k) \/ IsMemoized(k) \/ ForgetCall(k) \/ Gc(k)
    \/ \E f \in Fns : ForgetFunction(f) \/ ListMementos(f, 0) \/ ListMementos(f, 1)
    \/ ForgetEverything \/ ListFunctions
    \/ \E r \in BOOLEAN : Reopen(r)
    \/ \E k \in Keys, mk \in MKs : ReadMetadata(k, mk) \/ \E b \in 1..2, wd \in BOOLEAN : WriteMetadata(k, mk, b, wd)

Spec == Init /\ [][Next]_vars

-----------------------------------------------------------------------------
(* Properties                                                                       *)
MonOk == ok                                    \* refinement of DictMon and LruMon (C05, C06)

StoredBytes(k) == IF mstore[k].ck[1] = "n" THEN 0 ELSE objs[mstore[k].ck]

DictAbstraction ==                              \* the dictionary the monitor holds IS the store's content
    \A k \in Keys :
        /\ (mstore[k].mid # 0) = (k \in D!Live(dm.d))
        /\ mstore[k].mid # 0 => (dm.d[k].mid = mstore[k].mid /\ dm.d[k].v = StoredBytes(k))

CacheCoherent ==                                \* what the cache would serve is what the store holds
    \A k \in Keys : cache.ent[k].res =>
        /\ mstore[k].mid = cache.ent[k].mid
        /\ cache.ent[k].hasv => Bytes[cache.ent[k].val] = StoredBytes(k)
RefsCoherent == \A k \in Keys : refs[k] # 0 => (mstore[k].mid # 0 /\ Bytes[refs[k]] = StoredBytes(k))

RECURSIVE SumLru(_)
SumLru(s) == IF s = <<>> THEN 0 ELSE cache.ent[Head(s)].size + SumLru(Tail(s))
UsageIsSum        == cache.usage = SumLru(cache.lru)
UsageWithinBudget == cache.usage <= Budget
NoOversizeResident == \A k \in Keys : cache.ent[k].res => cache.ent[k].size <= Budget
LruIsPermutationOfResident ==
    /\ Len(cache.lru) = Cardinality({k \in Keys : cache.ent[k].res})
    /\ {cache.lru[i] : i \in 1..Len(cache.lru)} = {k \in Keys : cache.ent[k].res}

CasIntegrity == \A o \in ObjKeys : (o[1] = "c" /\ objs[o] # 0) => objs[o] = o[2]      \* C07
CasDedup     == \A b \in BIds : links[<<"c", b>>] # 0 =>
                    Cardinality({ver \in 1..MaxVer : objs[<<"c", b, ver>>] # 0}) = 1
LinksPointToObjects == \A x \in LinkKeys : links[x] # 0 => objs[<<x[1], x[2], links[x]>>] # 0
ReferencedObjectsImmutable ==
    [][\A k \in Keys : (mstore[k].mid # 0 /\ mstore'[k] = mstore[k] /\ mstore[k].ck[1] # "n")
            => objs'[mstore[k].ck] = objs[mstore[k].ck]]_vars
ZeroAfterForgetAll == (last.op = "ForgetEverything" /\ last.exc = "") => (cache.usage = 0 /\ cache.lru = <<>>)

ReadOnlyWritesNothing == [][ro => UNCHANGED Stores]_vars                               \* C19
Bounded == nextMid <= MaxMid + 1 /\ nextVer <= MaxVer + 1
=============================================================================
