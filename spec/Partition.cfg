CONSTANTS
  KeyUniverse = {1, 2, 3}
  MaxLen = 3
INIT Init
NEXT Next
INVARIANT KeysAreUnion
INVARIANT OwnWins
INVARIANT ParentOnlyRemain
INVARIANT ValueComesFromNearestLevel
CHECK_DEADLOCK FALSE
