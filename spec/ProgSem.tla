------------------------------ MODULE ProgSem ------------------------------
(* Denotational semantics of the small call-tree programs used for C02 / C10 /   *)
(* C15 / C16.  A program P is a sequence of function definitions (function id =   *)
(* index); P[f].body is a sequence of steps:                                        *)
(*   [t |-> "call",  g, d, ctx, catch]   call g(a - d) (skipped if a - d < 0) with   *)
(*                                        context "inherit" | "clear" | "k1" | "k2"  *)
(*   [t |-> "batch", g, ds, ctx, rf, catch]  g.call_batch over <<a - d : d \in ds>>   *)
(*                                        with raise_first_exception = rf             *)
(*                                        (both optionally with mod: "ignore" | "local")  *)
(*   [t |-> "res",   r]                   obtain resource handle r                    *)
(*   [t |-> "raise", when]                raise a memoizable exception if a = when     *)
(*   [t |-> "bad",   when]                if a = when the body RETURNS a value that cannot be  *)
(*                                        stored (a set): the call fails after the body ran,    *)
(*                                        nothing is memoized for it (outcome "U", <<"U">>)      *)
(* Well-foundedness: a step with d = 0 targets a function with a larger id.           *)
(* A call is identified by the key <<f, a, c>> (c: context id, "none" if absent).     *)
(*                                                                                    *)
(* Den(P, f, a, c)  what ONE un-memoized execution of the body does and yields:       *)
(*     out  "V" | "E";  val  the value (<<"V", f, a, subresults>>) or the exception     *)
(*     (<<"E", origin f, origin a>>);  invs  direct memento calls in order;  res        *)
(*     resource handles;  deps  function ids invoked transitively, f included.          *)
(* Run(P, memo, f, a, c)  which bodies run, in order, when the call is made against a   *)
(*     store in which exactly the keys in memo are memoized, and the store afterwards.  *)
EXTENDS Naturals, Sequences, FiniteSets, TLC

\* a call or batch step may be made through a modifier of the callee: "ignore" (ignore_result(): the callee runs and is
\* memoized like any other, the caller receives None unless the callee failed) or "local" (force_local(): no difference
\* in meaning); steps without the field are plain
ModOf(s) == IF "mod" \in DOMAIN s THEN s.mod ELSE "normal"
Seen(s, rec) == IF ModOf(s) = "ignore" /\ rec.out = "V" THEN <<"N">> ELSE rec.val

CtxAfter(cur, spec) == CASE spec = "inherit" -> cur [] spec = "clear" -> "none" [] OTHER -> spec
SeqToSet(s) == {s[i] : i \in 1..Len(s)}

RECURSIVE Den(_, _, _, _)
Den(P, f, a, c) ==
  LET body == P[f].body
      RECURSIVE Go(_, _)
      Go(i, acc) ==
        IF i > Len(body) \/ acc.ab # <<>> THEN acc
        ELSE LET s == body[i] IN
          CASE s.t = "raise" ->
                 Go(i + 1, IF a = s.when THEN [acc EXCEPT !.ab = <<"E", f, a>>] ELSE acc)
            [] s.t = "bad" ->
                 Go(i + 1, IF a = s.when THEN [acc EXCEPT !.ab = <<"U">>, !.u = TRUE] ELSE acc)
            [] s.t = "res" ->
                 Go(i + 1, [acc EXCEPT !.res = Append(@, s.r)])
            [] s.t = "call" ->
                 IF a < s.d THEN Go(i + 1, acc)
                 ELSE LET c2  == CtxAfter(c, s.ctx)
                          sub == Den(P, s.g, a - s.d, c2)
                          a1  == [acc EXCEPT !.invs = Append(@, <<s.g, a - s.d, c2>>),
                                             !.deps = @ \cup sub.deps]
                      IN Go(i + 1,
                            IF sub.out = "V" THEN [a1 EXCEPT !.subs = Append(@, Seen(s, sub))]
                            ELSE IF s.catch THEN [a1 EXCEPT !.subs = Append(@, sub.val)]
                            ELSE [a1 EXCEPT !.ab = sub.val])
            [] s.t = "batch" ->
                 LET c2   == CtxAfter(c, s.ctx)
                     args == SelectSeq([j \in 1..Len(s.ds) |-> IF a >= s.ds[j] THEN a - s.ds[j] ELSE 99], LAMBDA x : x # 99)
                     subs == [j \in 1..Len(args) |-> Den(P, s.g, args[j], c2)]
                     a1   == [acc EXCEPT !.invs = @ \o [j \in 1..Len(args) |-> <<s.g, args[j], c2>>],
                                         !.deps = @ \cup UNION {subs[j].deps : j \in 1..Len(args)}]
                     errs == {j \in 1..Len(args) : subs[j].out # "V"}
                     vals == [j \in 1..Len(args) |-> Seen(s, subs[j])]
                 IN Go(i + 1,
                       IF s.rf /\ errs # {}
                       THEN LET first == subs[CHOOSE j \in errs : \A k \in errs : j <= k].val IN
                            IF s.catch THEN [a1 EXCEPT !.subs = Append(@, first)]
                            ELSE [a1 EXCEPT !.ab = first]
                       ELSE [a1 EXCEPT !.subs = Append(@, <<"L", vals>>)])
      r == Go(1, [invs |-> <<>>, res |-> <<>>, deps |-> {f}, subs |-> <<>>, ab |-> <<>>, u |-> FALSE])
  IN [out  |-> IF r.ab = <<>> THEN "V" ELSE IF r.u THEN "U" ELSE "E",
      val  |-> IF r.ab = <<>> THEN <<"V", f, a, r.subs>> ELSE r.ab,
      invs |-> r.invs, res |-> r.res, deps |-> r.deps]

(* Which bodies run (in order of their start) and what is memoized afterwards.        *)
RECURSIVE Run(_, _, _, _, _)
Run(P, memo, f, a, c) ==
  IF <<f, a, c>> \in memo THEN [memo |-> memo, ran |-> <<>>]
  ELSE
  LET body == P[f].body
      RECURSIVE Go(_, _)
      Go(i, acc) ==      \* acc = [memo, ran, ab]
        IF i > Len(body) \/ acc.ab THEN acc
        ELSE LET s == body[i] IN
          CASE s.t \in {"raise", "bad"} -> Go(i + 1, IF a = s.when THEN [acc EXCEPT !.ab = TRUE] ELSE acc)
            [] s.t = "res" -> Go(i + 1, acc)
            [] s.t = "call" ->
                 IF a < s.d THEN Go(i + 1, acc)
                 ELSE LET c2  == CtxAfter(c, s.ctx)
                          r   == Run(P, acc.memo, s.g, a - s.d, c2)
                          bad == Den(P, s.g, a - s.d, c2).out # "V" /\ ~s.catch
                      IN Go(i + 1, [memo |-> r.memo, ran |-> acc.ran \o r.ran, ab |-> bad])
            [] s.t = "batch" ->
                 LET c2   == CtxAfter(c, s.ctx)
                     args == SelectSeq([j \in 1..Len(s.ds) |-> IF a >= s.ds[j] THEN a - s.ds[j] ELSE 99], LAMBDA x : x # 99)
                     RECURSIVE Each(_, _)
                     Each(j, st) == IF j > Len(args) THEN st
                                    ELSE LET r == Run(P, st.memo, s.g, args[j], c2) IN
                                         Each(j + 1, [memo |-> r.memo, ran |-> st.ran \o r.ran])
                     st2  == Each(1, [memo |-> acc.memo, ran |-> acc.ran])
                     bad  == s.rf /\ ~s.catch /\ \E j \in 1..Len(args) : Den(P, s.g, args[j], c2).out # "V"
                 IN Go(i + 1, [memo |-> st2.memo, ran |-> st2.ran, ab |-> bad])
      r == Go(1, [memo |-> memo, ran |-> <<<<f, a>>>>, ab |-> FALSE])
  \* a call whose body returned something that cannot be stored is not memoized: it runs again next time
  IN [memo |-> IF Den(P, f, a, c).out = "U" THEN r.memo ELSE r.memo \cup {<<f, a, c>>}, ran |-> r.ran]

(* bodies that run when NOTHING is ever memoized (null storage): every call executes      *)
RECURSIVE RunNS(_, _, _, _)
RunNS(P, f, a, c) ==
  LET body == P[f].body
      RECURSIVE Go(_, _)
      Go(i, acc) ==
        IF i > Len(body) \/ acc.ab THEN acc
        ELSE LET s == body[i] IN
          CASE s.t \in {"raise", "bad"} -> Go(i + 1, IF a = s.when THEN [acc EXCEPT !.ab = TRUE] ELSE acc)
            [] s.t = "res" -> Go(i + 1, acc)
            [] s.t = "call" ->
                 IF a < s.d THEN Go(i + 1, acc)
                 ELSE LET c2 == CtxAfter(c, s.ctx) IN
                      Go(i + 1, [ran |-> acc.ran \o RunNS(P, s.g, a - s.d, c2),
                                 ab |-> Den(P, s.g, a - s.d, c2).out # "V" /\ ~s.catch])
            [] s.t = "batch" ->
                 LET c2   == CtxAfter(c, s.ctx)
                     args == SelectSeq([j \in 1..Len(s.ds) |-> IF a >= s.ds[j] THEN a - s.ds[j] ELSE 99], LAMBDA x : x # 99)
                     RECURSIVE Each(_)
                     Each(j) == IF j > Len(args) THEN <<>> ELSE RunNS(P, s.g, args[j], c2) \o Each(j + 1)
                 IN Go(i + 1, [ran |-> acc.ran \o Each(1),
                               ab |-> s.rf /\ ~s.catch /\ \E j \in 1..Len(args) : Den(P, s.g, args[j], c2).out # "V"])
  IN Go(1, [ran |-> <<<<f, a>>>>, ab |-> FALSE]).ran

(* the same call made with further calls prevented: the first nested memento call      *)
(* (a call step that is not skipped, or any batch step) raises RuntimeError instead of   *)
(* executing; nothing beneath runs.  Result <<"X", "RuntimeError">> unless the body ends  *)
(* (or raises its own exception) before reaching a nested call.                           *)
DenPrevent(P, f, a) ==
  LET body == P[f].body
      RECURSIVE Go(_, _)
      Go(i, subs) ==
        IF i > Len(body) THEN <<"V", f, a, subs>>
        ELSE LET s == body[i] IN
          CASE s.t = "raise" -> IF a = s.when THEN <<"E", f, a>> ELSE Go(i + 1, subs)
            [] s.t = "bad"   -> IF a = s.when THEN <<"U">> ELSE Go(i + 1, subs)
            [] s.t = "res"   -> Go(i + 1, subs)
            [] s.t = "call"  -> IF a < s.d THEN Go(i + 1, subs) ELSE <<"X", "RuntimeError">>
            [] s.t = "batch" -> <<"X", "RuntimeError">>
  IN Go(1, <<>>)

(* Memento.forget_exceptions_recursively() on the memento of key k (beyond the listed properties): if the  *)
(* call failed, it and every failed call recorded beneath it - followed through the recorded invocations,     *)
(* as far as they are memoized, only through failed ones - are forgotten; nothing else is.                     *)
RECURSIVE ExcClosure(_, _, _, _)
ExcClosure(P, memo, frontier, acc) ==
  IF frontier = {} THEN acc
  ELSE LET k    == CHOOSE x \in frontier : TRUE
           d    == Den(P, k[1], k[2], k[3])
           take == k \in memo /\ d.out = "E" /\ k \notin acc
           nxt  == IF take THEN SeqToSet(d.invs) ELSE {}
       IN ExcClosure(P, memo, (frontier \cup nxt) \ {k}, IF take THEN acc \cup {k} ELSE acc)

(* a root batch: elements evaluated in order against the evolving store               *)
RECURSIVE RunBatch(_, _, _, _, _)
RunBatch(P, memo, f, args, c) ==
  IF args = <<>> THEN [memo |-> memo, ran |-> <<>>]
  ELSE LET r  == Run(P, memo, f, Head(args), c)
           r2 == RunBatch(P, r.memo, f, Tail(args), c)
       IN [memo |-> r2.memo, ran |-> r.ran \o r2.ran]
=============================================================================
