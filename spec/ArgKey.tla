------------------------------- MODULE ArgKey -------------------------------
(* Reference definition for C04: the documented cross-language argument key.     *)
(*   effective kwargs = partial kwargs, partial args bound to the first            *)
(*   parameters, positional args bound to the remaining parameters in order,        *)
(*   keyword args; context args (if any) under "_memento_context_args";              *)
(*   key = SHA-256 of the canonical JSON (sorted keys, no whitespace) of the          *)
(*   documented encoding of that dictionary.                                          *)
(* Typed terms:  none | bool(v) | int(lex) | float(lex) | str(esc) | date(iso) |       *)
(*   datetime(iso) | list(v) | dict(es: <<[k, v]>>) | fnref(qn, pargs, pkw, params)     *)
(* Canon(t) is the canonical TEXT; the harness only applies SHA-256 to it.              *)
(* The module reads cases from IOEnv.TRACE_FILE and writes for each case the text of     *)
(* its key to IOEnv.OUT_FILE; it also checks the laws on the definition itself:           *)
(*   presentations of one group have equal text; distinct groups of one function have      *)
(*   distinct text (the function itself is part of the storage key, not of this key).       *)
EXTENDS JsonText, FiniteSets, Json, IOUtils

RECURSIVE Canon(_)
Canon(t) ==
  CASE t.t = "none"  -> "null"
    [] t.t = "bool"  -> IF t.v THEN "true" ELSE "false"
    [] t.t \in {"int", "float"} -> t.lex
    [] t.t = "str"   -> t.esc
    [] t.t = "date"  -> Obj(<<[k |-> KMementoType, text |-> Q("date")], [k |-> KIso8601, text |-> Q(t.iso)]>>)
    [] t.t = "datetime" -> Obj(<<[k |-> KMementoType, text |-> Q("datetime")], [k |-> KIso8601, text |-> Q(t.iso)]>>)
    [] t.t = "list"  -> Arr([i \in 1..Len(t.v) |-> Canon(t.v[i])])
    [] t.t = "dict"  -> Obj([i \in 1..Len(t.es) |-> [k |-> t.es[i].k, text |-> Canon(t.es[i].v)]])
    [] t.t = "fnref" -> Obj(<<[k |-> KMementoType, text |-> Q("FunctionReference")],
                              [k |-> KQualName, text |-> Q(t.qn)],
                              [k |-> KPartialArgs, text |-> IF t.pargs = <<>> THEN "null" ELSE Arr([i \in 1..Len(t.pargs) |-> Canon(t.pargs[i])])],
                              [k |-> KPartialKw, text |-> Obj([i \in 1..Len(t.pkw) |-> [k |-> t.pkw[i].k, text |-> Canon(t.pkw[i].v)]])],
                              [k |-> KParamNames, text |-> Arr([i \in 1..Len(t.params) |-> t.params[i].esc])]>>)

\* effective keyword arguments of a call presentation (reference.py:736-779)
Eff(c) ==
  LET fromPartialArgs == [i \in 1..Len(c.pargs) |-> [k |-> c.params[i], v |-> c.pargs[i]]]
      bound0    == c.pkw \o fromPartialArgs
      isBound(p) == \E i \in 1..Len(bound0) : bound0[i].k.cp = p.cp
      remaining == SelectSeq(c.params, LAMBDA p : ~isBound(p))
      fromArgs  == [i \in 1..Len(c.args) |-> [k |-> remaining[i], v |-> c.args[i]]]
      all       == bound0 \o fromArgs \o c.kw
  IN IF c.ctx = <<>> THEN all
     ELSE all \o <<[k |-> KCtxArgs, v |-> [t |-> "dict", es |-> c.ctx]]>>

KeyText(c) == Obj([i \in 1..Len(Eff(c)) |-> [k |-> Eff(c)[i].k, text |-> Canon(Eff(c)[i].v)]])

Cases == JsonDeserialize(IOEnv.TRACE_FILE).cases
VARIABLE done
Init == done = FALSE
Next == /\ ~done /\ done' = TRUE
        /\ LET texts == [i \in 1..Len(Cases) |-> [id |-> Cases[i].id, group |-> Cases[i].group, sig |-> Cases[i].sig, text |-> KeyText(Cases[i].call)]]
           IN /\ ndJsonSerialize(IOEnv.OUT_FILE, texts)
              \* laws on the definition
              /\ Assert(\A i, j \in 1..Len(texts) : texts[i].group = texts[j].group => texts[i].text = texts[j].text,
                        "presentation invariance violated by the reference definition")
              /\ Assert(\A i, j \in 1..Len(texts) : (texts[i].group # texts[j].group /\ texts[i].sig = texts[j].sig) => texts[i].text # texts[j].text,
                        "injectivity violated by the reference definition")
              /\ PrintT(<<"KEYTEXTS", Len(texts), Cardinality({texts[i].group : i \in 1..Len(texts)})>>)
=============================================================================
