---- MODULE TraceNames ----
EXTENDS NamesMon
VARIABLES tid, l, st
INSTANCE TraceCheck WITH MInit <- NInit, MOk <- NOk, MStep <- NStep, MWhy <- NWhy
====
