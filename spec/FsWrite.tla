------------------------------ MODULE FsWrite ------------------------------
(* Mechanism specification of the filesystem write protocol of one memoizing call *)
(* (M2) with a crash / I-O-error environment and the recovery reads of later calls.*)
(*                                                                                  *)
(*   memento_run_local:  lookup -> (served | compute) -> is_memoized? -> memoize    *)
(*   memoize          :  BlobStrategy.store (reuse content key | output) ; put_memento*)
(*   output(key)      :  mkdir ; open object (the file exists, empty) ; write object  *)
(*                       (data handed to the file object) ; close object (flushed:    *)
(*                       complete) ; open pointer (creates / truncates the .link      *)
(*                       file) ; write pointer ; close pointer                        *)
(* (storage_filesystem.py:79-98,145-172; storage_base.py:366-379,975-981,1420-1438)   *)
(*                                                                                  *)
(* Two functions f and g produce the same bytes, i.e. share the content key "c".     *)
(* Pointer files are "absent", "empty" (created, nothing written), "partial"          *)
(* (truncated path) or hold a version number.  Object files exist from their open on   *)
(* (part: present but not completely written -- a regular file all the same) and are   *)
(* complete after their close (objs).  A fault may hit a write (write-through view: the *)
(* file is left partially written) or a close (buffered view: the data never or only    *)
(* partly reached the file).                                                            *)
(*                                                                                  *)
(* FixedReader = FALSE is the pinned commit: exists_nonversioned evaluates               *)
(* Path(link content).exists(), and Path('') is '.', so an EMPTY pointer "exists";      *)
(* get_versioned_key then yields version '' (0 here).  FixedReader = TRUE is the         *)
(* repaired predicate (the pointer target must be a regular file).                       *)
(* LinkBeforeClose = TRUE is a design variant kept to show what the order of the         *)
(* protocol is for: the pointer is written while the object file is still open           *)
(* (seeded changes C08A / C07C); TLC then finds a call that raises.                       *)
EXTENDS Integers, FiniteSets, TLC

CONSTANTS Fns,            \* {"f", "g"}
          MaxCalls, MaxFaults, MaxForgets,
          FixedReader, LinkBeforeClose

VARIABLES ptr,     \* pointer files: key -> ABSENT | EMPTY | PARTIAL | version (positive)
          objs,    \* complete objects: key -> set of versions
          part,    \* object files that exist but were not completely written: key -> set of versions
          mck,     \* memento contents: <<fn, version>> -> content-key version recorded in it
          nextVer,
          pc, cur, ck, nv,       \* the running call: program counter, function, content key version, version being written
          faulted,               \* a fault was injected into the running call
          raised,                \* some call raised an error to its caller
          exec, clean, ncalls, nfaults, nforgets,
          last                   \* label of the last completed call: [fn, served, faulted] (for replay / monitor)

vars == <<ptr, objs, part, mck, nextVer, pc, cur, ck, nv, faulted, raised, exec, clean, ncalls, nfaults, nforgets, last>>

Keys == {"c"} \cup Fns                       \* "c": the shared content key; fn: its memento key
ABSENT == 0
EMPTY == -1       \* created / truncated, nothing written
PARTIAL == -2     \* truncated path
IsVer(x) == x > 0
NoneV == 0                                   \* bogus / absent version

\* exists_nonversioned as the code evaluates it: the pointer names a regular file (complete or not)
PtrExists(k) ==
    CASE ptr[k] = ABSENT  -> FALSE
      [] ptr[k] = EMPTY   -> ~FixedReader          \* Path('') == '.' exists
      [] ptr[k] = PARTIAL -> FALSE
      [] OTHER              -> ptr[k] \in objs[k] \cup part[k]
\* get_versioned_key: parent directory name of the path in the pointer
VerOf(k) == IF IsVer(ptr[k]) THEN ptr[k] ELSE NoneV
\* get_mementos: read through the pointer; an OSError means "no memento", a memento file that is not complete JSON
\* raises a decoding error that is not caught
MementoState(fn) == IF ~IsVer(ptr[fn]) THEN "none"
                    ELSE IF ptr[fn] \in objs[fn] THEN "ok"
                    ELSE IF ptr[fn] \in part[fn] THEN "corrupt" ELSE "none"
MementoCk(fn) == IF MementoState(fn) = "ok" THEN mck[<<fn, ptr[fn]>>] ELSE -1    \* -1: no memento
Readable(ckv) == ckv # NoneV /\ ckv \in objs["c"]
Truncated(ckv) == ckv # NoneV /\ ckv \in part["c"]         \* unpickling fails: not an OSError

Init ==
    /\ ptr = [k \in Keys |-> ABSENT]
    /\ objs = [k \in Keys |-> {}]
    /\ part = [k \in Keys |-> {}]
    /\ mck = [x \in Fns \X (1..(2 * MaxCalls + 2)) |-> NoneV]
    /\ nextVer = 1
    /\ pc = "idle" /\ cur = "none" /\ ck = NoneV /\ nv = NoneV /\ faulted = FALSE /\ raised = FALSE
    /\ exec = [f \in Fns |-> 0] /\ clean = {} /\ ncalls = 0 /\ nfaults = 0 /\ nforgets = 0
    /\ last = [fn |-> "none", served |-> FALSE, faulted |-> FALSE, ran |-> FALSE]

Store == <<ptr, objs, part, mck, nextVer>>
Counters == <<ncalls, nfaults, nforgets>>

Begin(fn) ==
    /\ pc = "idle" /\ ncalls < MaxCalls
    /\ pc' = "lookup" /\ cur' = fn /\ faulted' = FALSE /\ ncalls' = ncalls + 1
    /\ UNCHANGED <<Store, ck, nv, raised, exec, clean, nfaults, nforgets, last>>

\* existing memento whose result can be read: served without running the body
Lookup ==
    /\ pc = "lookup"
    /\ IF MementoState(cur) = "corrupt" \/ (MementoCk(cur) # -1 /\ Truncated(MementoCk(cur)))
       THEN \* the memento (or the result it names) is there but cannot be decoded: the error escapes to the caller
            /\ raised' = TRUE /\ pc' = "idle" /\ cur' = "none"
            /\ last' = [fn |-> cur, served |-> FALSE, faulted |-> FALSE, ran |-> FALSE]
            /\ UNCHANGED <<exec, clean>>
       ELSE IF MementoCk(cur) # -1 /\ Readable(MementoCk(cur))
       THEN /\ pc' = "idle" /\ cur' = "none"
            /\ last' = [fn |-> cur, served |-> TRUE, faulted |-> FALSE, ran |-> FALSE]
            /\ clean' = clean \cup {cur}
            /\ UNCHANGED <<exec, raised>>
       ELSE /\ pc' = "ismemo" /\ exec' = [exec EXCEPT ![cur] = @ + 1]            \* body runs
            /\ UNCHANGED <<cur, last, clean, raised>>
    /\ UNCHANGED <<Store, ck, nv, faulted, Counters>>

\* storage.is_memoized guards the write ("memoized elsewhere while we were computing")
IsMemo ==
    /\ pc = "ismemo"
    /\ pc' = IF PtrExists(cur) THEN "finish" ELSE "data"
    /\ UNCHANGED <<Store, cur, ck, nv, faulted, raised, exec, clean, Counters, last>>

\* BlobStrategy.store: reuse an existing content key or output a new version
Data ==
    /\ pc = "data"
    /\ IF PtrExists("c")
       THEN ck' = VerOf("c") /\ pc' = "m_mkdir" /\ nv' = nextVer /\ nextVer' = nextVer + 1
       ELSE ck' = nextVer /\ nv' = nextVer /\ nextVer' = nextVer + 1 /\ pc' = "d_mkdir"
    /\ UNCHANGED <<ptr, objs, part, mck, cur, faulted, raised, exec, clean, Counters, last>>

Goto(from, to) == pc = from /\ pc' = to
Quiet == UNCHANGED <<cur, ck, nv, faulted, raised, exec, clean, Counters, last, nextVer>>

\* the data object: ... open, write, close, then the pointer -- or, in the LinkBeforeClose variant, the pointer before the close
DMkdir    == Goto("d_mkdir", "d_openobj")   /\ Quiet /\ UNCHANGED <<ptr, objs, part, mck>>
DOpenObj  == Goto("d_openobj", "d_writeobj") /\ Quiet /\ part' = [part EXCEPT !["c"] = @ \cup {nv}] /\ UNCHANGED <<ptr, objs, mck>>
DWriteObj == Goto("d_writeobj", IF LinkBeforeClose THEN "d_openptr" ELSE "d_closeobj") /\ Quiet /\ UNCHANGED <<ptr, objs, part, mck>>
DCloseObj == /\ pc = "d_closeobj" /\ Quiet
             /\ objs' = [objs EXCEPT !["c"] = @ \cup {nv}] /\ part' = [part EXCEPT !["c"] = @ \ {nv}] /\ UNCHANGED <<ptr, mck>>
             /\ pc' = IF LinkBeforeClose THEN "d_done" ELSE "d_openptr"
DOpenPtr  == Goto("d_openptr", "d_writeptr") /\ Quiet /\ ptr' = [ptr EXCEPT !["c"] = EMPTY] /\ UNCHANGED <<objs, part, mck>>
DWritePtr == Goto("d_writeptr", "d_closeptr") /\ Quiet /\ UNCHANGED <<ptr, objs, part, mck>>
DClosePtr == /\ pc = "d_closeptr" /\ Quiet /\ ptr' = [ptr EXCEPT !["c"] = nv] /\ UNCHANGED <<objs, part, mck>>
             /\ pc' = IF LinkBeforeClose THEN "d_closeobj" ELSE "d_done"
DDone     == /\ pc = "d_done" /\ pc' = "m_mkdir"
             /\ nv' = nextVer /\ nextVer' = nextVer + 1          \* uuid of the memento object
             /\ UNCHANGED <<ptr, objs, part, mck, cur, ck, faulted, raised, exec, clean, Counters, last>>

MMkdir    == Goto("m_mkdir", "m_openobj")   /\ Quiet /\ UNCHANGED <<ptr, objs, part, mck>>
MOpenObj  == Goto("m_openobj", "m_writeobj") /\ Quiet /\ part' = [part EXCEPT ![cur] = @ \cup {nv}] /\ UNCHANGED <<ptr, objs, mck>>
MWriteObj == Goto("m_writeobj", "m_closeobj") /\ Quiet /\ UNCHANGED <<ptr, objs, part, mck>>
MCloseObj == Goto("m_closeobj", "m_openptr") /\ Quiet
             /\ objs' = [objs EXCEPT ![cur] = @ \cup {nv}] /\ part' = [part EXCEPT ![cur] = @ \ {nv}]
             /\ mck' = [mck EXCEPT ![<<cur, nv>>] = ck] /\ UNCHANGED ptr
MOpenPtr  == Goto("m_openptr", "m_writeptr") /\ Quiet /\ ptr' = [ptr EXCEPT ![cur] = EMPTY] /\ UNCHANGED <<objs, part, mck>>
MWritePtr == Goto("m_writeptr", "m_closeptr") /\ Quiet /\ UNCHANGED <<ptr, objs, part, mck>>
MClosePtr == Goto("m_closeptr", "finish")    /\ Quiet /\ ptr' = [ptr EXCEPT ![cur] = nv] /\ UNCHANGED <<objs, part, mck>>

Finish ==
    /\ pc = "finish"
    /\ pc' = "idle" /\ cur' = "none"
    /\ last' = [fn |-> cur, served |-> FALSE, faulted |-> faulted, ran |-> TRUE]
    /\ clean' = IF faulted THEN clean \ {cur} ELSE clean \cup {cur}
    /\ UNCHANGED <<Store, ck, nv, faulted, raised, exec, Counters>>

WritePcs == {"d_mkdir", "d_openobj", "d_writeobj", "d_closeobj", "d_openptr", "d_writeptr", "d_closeptr",
             "m_mkdir", "m_openobj", "m_writeobj", "m_closeobj", "m_openptr", "m_writeptr", "m_closeptr"}
\* operations that move the bytes of a pointer file (write-through view: the write; buffered view: the close)
PtrWrite(p) == p \in {"d_writeptr", "d_closeptr", "m_writeptr", "m_closeptr"}
PtrKey == IF pc \in {"d_writeptr", "d_closeptr"} THEN "c" ELSE cur

\* the process dies before the operation at pc (for the bytes of a pointer optionally after a part of them)
Crash(half) ==
    /\ pc \in WritePcs /\ nfaults < MaxFaults
    /\ half => PtrWrite(pc)
    /\ ptr' = IF half THEN [ptr EXCEPT ![PtrKey] = PARTIAL] ELSE ptr
    /\ pc' = "idle" /\ cur' = "none" /\ nfaults' = nfaults + 1
    /\ clean' = clean \ {cur}
    /\ last' = [fn |-> cur, served |-> FALSE, faulted |-> TRUE, ran |-> FALSE]
    /\ UNCHANGED <<objs, part, mck, nextVer, ck, nv, faulted, raised, exec, ncalls, nforgets>>

\* the operation at pc reports ENOSPC / EFBIG: memoize is abandoned, the call still returns its value
IoError(half) ==
    /\ pc \in WritePcs /\ nfaults < MaxFaults
    /\ half => PtrWrite(pc)
    /\ ptr' = IF half THEN [ptr EXCEPT ![PtrKey] = PARTIAL] ELSE ptr
    /\ pc' = "finish" /\ faulted' = TRUE /\ nfaults' = nfaults + 1
    /\ UNCHANGED <<objs, part, mck, nextVer, cur, ck, nv, raised, exec, clean, ncalls, nforgets, last>>

\* forget_call(fn): pointer and all versions of the memento removed (no fault injected here)
Forget(fn) ==
    /\ pc = "idle" /\ nforgets < MaxForgets
    /\ ptr' = [ptr EXCEPT ![fn] = ABSENT] /\ objs' = [objs EXCEPT ![fn] = {}] /\ part' = [part EXCEPT ![fn] = {}]
    /\ clean' = clean \ {fn} /\ nforgets' = nforgets + 1
    /\ last' = [fn |-> fn, served |-> FALSE, faulted |-> FALSE, ran |-> FALSE]
    /\ UNCHANGED <<mck, nextVer, pc, cur, ck, nv, faulted, raised, exec, ncalls, nfaults>>

Next ==
    \/ \E fn \in Fns : Begin(fn) \/ Forget(fn)
    \/ Lookup \/ IsMemo \/ Data
    \/ DMkdir \/ DOpenObj \/ DWriteObj \/ DCloseObj \/ DOpenPtr \/ DWritePtr \/ DClosePtr \/ DDone
    \/ MMkdir \/ MOpenObj \/ MWriteObj \/ MCloseObj \/ MOpenPtr \/ MWritePtr \/ MClosePtr
    \/ Finish
    \/ \E h \in BOOLEAN : Crash(h) \/ IoError(h)

Spec == Init /\ [][Next]_vars

-----------------------------------------------------------------------------
(* CrashSafe (C08): once a call of fn has completed with no fault injected since it  *)
(* started, the next call of fn is served from the store; i.e. a call of a clean fn   *)
(* never runs its body; and no call ever raises.                                       *)
Recovers == (pc = "ismemo") => cur \notin clean
NeverRaises == ~raised
\* a pointer that holds a version always points to a completely written object
PointerImpliesObject == \A k \in Keys : IsVer(ptr[k]) => ptr[k] \in objs[k]
\* a readable memento never records a bogus content key
NoPoisonedMemento == \A fn \in Fns : MementoCk(fn) # -1 => Readable(MementoCk(fn))
=============================================================================
