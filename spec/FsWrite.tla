------------------------------ MODULE FsWrite ------------------------------
(* Mechanism specification of the filesystem write protocol of one memoizing call *)
(* (M2) with a crash / I-O-error environment and the recovery reads of later calls.*)
(*                                                                                  *)
(*   memento_run_local:  lookup -> (served | compute) -> is_memoized? -> memoize    *)
(*   memoize          :  BlobStrategy.store (reuse content key | output) ; put_memento*)
(*   output(key)      :  mkdir ; open object ; write object ; open pointer (creates / *)
(*                       truncates the .link file) ; write pointer                    *)
(* (storage_filesystem.py:79-98,145-172; storage_base.py:366-379,975-981,1420-1438)   *)
(*                                                                                  *)
(* Two functions f and g produce the same bytes, i.e. share the content key "c".     *)
(* Pointer files are "absent", "empty" (created, nothing written), "partial"          *)
(* (truncated path) or hold a version number.  Objects of versions that were not       *)
(* completely written are never referenced and are not represented.                    *)
(*                                                                                  *)
(* FixedReader = FALSE is the pinned commit: exists_nonversioned evaluates               *)
(* Path(link content).exists(), and Path('') is '.', so an EMPTY pointer "exists";      *)
(* get_versioned_key then yields version '' (0 here).  FixedReader = TRUE is the         *)
(* repaired predicate (the pointer target must be a regular file).                       *)
EXTENDS Integers, FiniteSets, TLC

CONSTANTS Fns,            \* {"f", "g"}
          MaxCalls, MaxFaults, MaxForgets,
          FixedReader

VARIABLES ptr,     \* pointer files: key -> ABSENT | EMPTY | PARTIAL | version (positive)
          objs,    \* complete objects: key -> set of versions
          mck,     \* memento contents: <<fn, version>> -> content-key version recorded in it
          nextVer,
          pc, cur, ck, nv,       \* the running call: program counter, function, content key version, version being written
          faulted,               \* a fault was injected into the running call
          exec, clean, ncalls, nfaults, nforgets,
          last                   \* label of the last completed call: [fn, served, faulted] (for replay / monitor)

vars == <<ptr, objs, mck, nextVer, pc, cur, ck, nv, faulted, exec, clean, ncalls, nfaults, nforgets, last>>

Keys == {"c"} \cup Fns                       \* "c": the shared content key; fn: its memento key
ABSENT == 0
EMPTY == -1       \* created / truncated, nothing written
PARTIAL == -2     \* truncated path
IsVer(x) == x > 0
NoneV == 0                                   \* bogus / absent version

\* exists_nonversioned as the code evaluates it
PtrExists(k) ==
    CASE ptr[k] = ABSENT  -> FALSE
      [] ptr[k] = EMPTY   -> ~FixedReader          \* Path('') == '.' exists
      [] ptr[k] = PARTIAL -> FALSE
      [] OTHER              -> ptr[k] \in objs[k]
\* get_versioned_key: parent directory name of the path in the pointer
VerOf(k) == IF IsVer(ptr[k]) THEN ptr[k] ELSE NoneV
\* get_mementos: read through the pointer (any OSError -> None)
MementoCk(fn) == IF IsVer(ptr[fn]) /\ ptr[fn] \in objs[fn] THEN mck[<<fn, ptr[fn]>>] ELSE -1    \* -1: no memento
Readable(ckv) == ckv # NoneV /\ ckv \in objs["c"]

Init ==
    /\ ptr = [k \in Keys |-> ABSENT]
    /\ objs = [k \in Keys |-> {}]
    /\ mck = [x \in Fns \X (1..(2 * MaxCalls + 2)) |-> NoneV]
    /\ nextVer = 1
    /\ pc = "idle" /\ cur = "none" /\ ck = NoneV /\ nv = NoneV /\ faulted = FALSE
    /\ exec = [f \in Fns |-> 0] /\ clean = {} /\ ncalls = 0 /\ nfaults = 0 /\ nforgets = 0
    /\ last = [fn |-> "none", served |-> FALSE, faulted |-> FALSE, ran |-> FALSE]

Store == <<ptr, objs, mck, nextVer>>
Counters == <<ncalls, nfaults, nforgets>>

Begin(fn) ==
    /\ pc = "idle" /\ ncalls < MaxCalls
    /\ pc' = "lookup" /\ cur' = fn /\ faulted' = FALSE /\ ncalls' = ncalls + 1
    /\ UNCHANGED <<Store, ck, nv, exec, clean, nfaults, nforgets, last>>

\* existing memento whose result can be read: served without running the body
Lookup ==
    /\ pc = "lookup"
    /\ IF MementoCk(cur) # -1 /\ Readable(MementoCk(cur))
       THEN /\ pc' = "idle" /\ cur' = "none"
            /\ last' = [fn |-> cur, served |-> TRUE, faulted |-> FALSE, ran |-> FALSE]
            /\ clean' = clean \cup {cur}
            /\ UNCHANGED exec
       ELSE /\ pc' = "ismemo" /\ exec' = [exec EXCEPT ![cur] = @ + 1]            \* body runs
            /\ UNCHANGED <<cur, last, clean>>
    /\ UNCHANGED <<Store, ck, nv, faulted, Counters>>

\* storage.is_memoized guards the write ("memoized elsewhere while we were computing")
IsMemo ==
    /\ pc = "ismemo"
    /\ pc' = IF PtrExists(cur) THEN "finish" ELSE "data"
    /\ UNCHANGED <<Store, cur, ck, nv, faulted, exec, clean, Counters, last>>

\* BlobStrategy.store: reuse an existing content key or output a new version
Data ==
    /\ pc = "data"
    /\ IF PtrExists("c")
       THEN ck' = VerOf("c") /\ pc' = "m_mkdir" /\ nv' = nextVer /\ nextVer' = nextVer + 1
       ELSE ck' = nextVer /\ nv' = nextVer /\ nextVer' = nextVer + 1 /\ pc' = "d_mkdir"
    /\ UNCHANGED <<ptr, objs, mck, cur, faulted, exec, clean, Counters, last>>

Goto(from, to) == pc = from /\ pc' = to
Quiet == UNCHANGED <<cur, ck, nv, faulted, exec, clean, Counters, last, nextVer>>

DMkdir    == Goto("d_mkdir", "d_openobj")   /\ Quiet /\ UNCHANGED <<ptr, objs, mck>>
DOpenObj  == Goto("d_openobj", "d_writeobj") /\ Quiet /\ UNCHANGED <<ptr, objs, mck>>
DWriteObj == Goto("d_writeobj", "d_openptr") /\ Quiet /\ objs' = [objs EXCEPT !["c"] = @ \cup {nv}] /\ UNCHANGED <<ptr, mck>>
DOpenPtr  == Goto("d_openptr", "d_writeptr") /\ Quiet /\ ptr' = [ptr EXCEPT !["c"] = EMPTY] /\ UNCHANGED <<objs, mck>>
DWritePtr == /\ pc = "d_writeptr" /\ pc' = "m_mkdir"
             /\ ptr' = [ptr EXCEPT !["c"] = nv]
             /\ nv' = nextVer /\ nextVer' = nextVer + 1          \* uuid of the memento object
             /\ UNCHANGED <<objs, mck, cur, ck, faulted, exec, clean, Counters, last>>

MMkdir    == Goto("m_mkdir", "m_openobj")   /\ Quiet /\ UNCHANGED <<ptr, objs, mck>>
MOpenObj  == Goto("m_openobj", "m_writeobj") /\ Quiet /\ UNCHANGED <<ptr, objs, mck>>
MWriteObj == Goto("m_writeobj", "m_openptr") /\ Quiet
             /\ objs' = [objs EXCEPT ![cur] = @ \cup {nv}] /\ mck' = [mck EXCEPT ![<<cur, nv>>] = ck] /\ UNCHANGED ptr
MOpenPtr  == Goto("m_openptr", "m_writeptr") /\ Quiet /\ ptr' = [ptr EXCEPT ![cur] = EMPTY] /\ UNCHANGED <<objs, mck>>
MWritePtr == Goto("m_writeptr", "finish")    /\ Quiet /\ ptr' = [ptr EXCEPT ![cur] = nv] /\ UNCHANGED <<objs, mck>>

Finish ==
    /\ pc = "finish"
    /\ pc' = "idle" /\ cur' = "none"
    /\ last' = [fn |-> cur, served |-> FALSE, faulted |-> faulted, ran |-> TRUE]
    /\ clean' = IF faulted THEN clean \ {cur} ELSE clean \cup {cur}
    /\ UNCHANGED <<Store, ck, nv, faulted, exec, Counters>>

WritePcs == {"d_mkdir", "d_openobj", "d_writeobj", "d_openptr", "d_writeptr",
             "m_mkdir", "m_openobj", "m_writeobj", "m_openptr", "m_writeptr"}
PtrWrite(p) == p \in {"d_writeptr", "m_writeptr"}
PtrKey == IF pc = "d_writeptr" THEN "c" ELSE cur

\* the process dies before the operation at pc (for a pointer write optionally after half of it)
Crash(half) ==
    /\ pc \in WritePcs /\ nfaults < MaxFaults
    /\ half => PtrWrite(pc)
    /\ ptr' = IF half THEN [ptr EXCEPT ![PtrKey] = PARTIAL] ELSE ptr
    /\ pc' = "idle" /\ cur' = "none" /\ nfaults' = nfaults + 1
    /\ clean' = clean \ {cur}
    /\ last' = [fn |-> cur, served |-> FALSE, faulted |-> TRUE, ran |-> FALSE]
    /\ UNCHANGED <<objs, mck, nextVer, ck, nv, faulted, exec, ncalls, nforgets>>

\* the operation at pc reports ENOSPC / EFBIG: memoize is abandoned, the call still returns its value
IoError(half) ==
    /\ pc \in WritePcs /\ nfaults < MaxFaults
    /\ half => PtrWrite(pc)
    /\ ptr' = IF half THEN [ptr EXCEPT ![PtrKey] = PARTIAL] ELSE ptr
    /\ pc' = "finish" /\ faulted' = TRUE /\ nfaults' = nfaults + 1
    /\ UNCHANGED <<objs, mck, nextVer, cur, ck, nv, exec, clean, ncalls, nforgets, last>>

\* forget_call(fn): pointer and all versions of the memento removed (no fault injected here)
Forget(fn) ==
    /\ pc = "idle" /\ nforgets < MaxForgets
    /\ ptr' = [ptr EXCEPT ![fn] = ABSENT] /\ objs' = [objs EXCEPT ![fn] = {}]
    /\ clean' = clean \ {fn} /\ nforgets' = nforgets + 1
    /\ last' = [fn |-> fn, served |-> FALSE, faulted |-> FALSE, ran |-> FALSE]
    /\ UNCHANGED <<mck, nextVer, pc, cur, ck, nv, faulted, exec, ncalls, nfaults>>

Next ==
    \/ \E fn \in Fns : Begin(fn) \/ Forget(fn)
    \/ Lookup \/ IsMemo \/ Data
    \/ DMkdir \/ DOpenObj \/ DWriteObj \/ DOpenPtr \/ DWritePtr
    \/ MMkdir \/ MOpenObj \/ MWriteObj \/ MOpenPtr \/ MWritePtr
    \/ Finish
    \/ \E h \in BOOLEAN : Crash(h) \/ IoError(h)

Spec == Init /\ [][Next]_vars

-----------------------------------------------------------------------------
(* CrashSafe (C08): once a call of fn has completed with no fault injected since it  *)
(* started, the next call of fn is served from the store; i.e. a call of a clean fn   *)
(* never runs its body.  (Correct value / no exception hold by construction of the    *)
(* read path in this model: every read failure is an OSError that falls back to       *)
(* recomputation; the conformance harness checks that on the real code.)              *)
Recovers == (pc = "ismemo") => cur \notin clean
\* a pointer that holds a version always points to a completely written object
PointerImpliesObject == \A k \in Keys : IsVer(ptr[k]) => ptr[k] \in objs[k]
\* a readable memento never records a bogus content key
NoPoisonedMemento == \A fn \in Fns : MementoCk(fn) # -1 => Readable(MementoCk(fn))
=============================================================================
