---- MODULE TraceSuite ----
EXTENDS SuiteMon
VARIABLES tid, l, st
INSTANCE TraceCheck WITH MInit <- SInit, MOk <- SOk, MStep <- SStep, MWhy <- SWhy
====
