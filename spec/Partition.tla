------------------------------ MODULE Partition ------------------------------
(* Reference definition for C17: a partition is a finite map from string keys to  *)
(* values; a partition that declares a merge parent is stored as the parent's       *)
(* stored entries overlaid by its own.  A chain is a sequence of levels, level i     *)
(* having the parent level i-1; chain[i].own is the sequence of own keys of level i  *)
(* and the value of key k written at level i is the pair <<k, i>>.                   *)
EXTENDS Naturals, Sequences, FiniteSets, TLC

SeqToSet(s) == {s[i] : i \in 1..Len(s)}
\* an own key listed in chain[i].nul holds None, written <<k, 0>>
Val(chain, i, k) == <<k, IF k \in SeqToSet(chain[i].nul) THEN 0 ELSE i>>
Own(chain, i) == [k \in SeqToSet(chain[i].own) |-> Val(chain, i, k)]
Overlay(parent, own) == [k \in DOMAIN parent \cup DOMAIN own |-> IF k \in DOMAIN own THEN own[k] ELSE parent[k]]

RECURSIVE Stored(_, _)
Stored(chain, i) == IF i = 1 THEN Own(chain, 1) ELSE Overlay(Stored(chain, i - 1), Own(chain, i))

SortedKeys(f) == LET RECURSIVE S(_)
                     S(T) == IF T = {} THEN <<>> ELSE LET x == CHOOSE y \in T : \A z \in T : y <= z IN <<x>> \o S(T \ {x})
                 IN S(DOMAIN f)

(* ---- the laws, checked by TLC over every chain of the bounded universe ---------- *)
CONSTANTS KeyUniverse, MaxLen
VARIABLE chain
Subseqs == {<<>>} \cup {<<k>> : k \in KeyUniverse} \cup
           {<<a, b>> \in KeyUniverse \X KeyUniverse : a < b} \cup
           {<<a, b, c>> \in KeyUniverse \X KeyUniverse \X KeyUniverse : a < b /\ b < c}
Levels == {l \in [own : Subseqs, kind : {"mem", "disk"}, nul : Subseqs] : SeqToSet(l.nul) \subseteq SeqToSet(l.own)}
Init == chain \in UNION {[1..n -> Levels] : n \in 1..MaxLen}
Next == UNCHANGED chain

KeysAreUnion == \A i \in 2..Len(chain) :
    DOMAIN Stored(chain, i) = DOMAIN Stored(chain, i - 1) \cup SeqToSet(chain[i].own)
OwnWins == \A i \in 1..Len(chain) : \A k \in SeqToSet(chain[i].own) : Stored(chain, i)[k] = Val(chain, i, k)
ParentOnlyRemain == \A i \in 2..Len(chain) : \A k \in DOMAIN Stored(chain, i - 1) \ SeqToSet(chain[i].own) :
    Stored(chain, i)[k] = Stored(chain, i - 1)[k]
ValueComesFromNearestLevel == \A i \in 1..Len(chain) : \A k \in DOMAIN Stored(chain, i) :
    \E lv \in 1..i :
      /\ k \in SeqToSet(chain[lv].own) /\ Stored(chain, i)[k] = Val(chain, lv, k)
      /\ \A j \in (lv + 1)..i : k \notin SeqToSet(chain[j].own)
=============================================================================
