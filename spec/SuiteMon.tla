------------------------------ MODULE SuiteMon ------------------------------
(* Property monitor for the storage-level executions of the repository's OWN    *)
(* test suite (recorded by harness/pylib/verif_pytest_rec.py): one trace per      *)
(* store (a directory, or one in-memory / null backend object), all backend        *)
(* objects opened on it in the order of their calls.                               *)
(*   read-write backend   the dictionary of DictMon (C05)                          *)
(*   read-only backend    the clauses of RoMon (C19): nothing written, memoize      *)
(*                        skipped, forget / metadata write rejected, reads answer    *)
(*                        like the dictionary                                        *)
(*   null backend         never reports anything as memoized                         *)
(* The suite is not bound by the preconditions the generated histories respect:      *)
(* a read through a memento that is not the current one of its key, and a metadata    *)
(* write for a call that has no memento, are accepted and what they leave behind is    *)
(* unknown (Unknown = -1).                                                             *)
EXTENDS DictMon

Unknown == 0 - 1
SInit(cfg) == [kind |-> cfg.kind, s |-> DInit(cfg)]

Writes   == {"Memoize", "ForgetCall", "ForgetFunction", "ForgetEverything", "WriteMetadata"}
Rejected == {"ForgetCall", "ForgetFunction", "ForgetEverything", "WriteMetadata"}

PreOk(d, e) ==
  CASE e.op = "ReadResult"    -> Get(d.d, Key(e)).mid = e.mid
    [] e.op = "WriteMetadata" -> Key(e) \in Live(d.d)
    [] e.op = "ReadMetadata"  -> MetaGet(d, <<e.f, e.h, e.mk>>) # Unknown
    [] OTHER -> TRUE

\* the clauses of the dictionary that apply (all of them when the preconditions hold, "no exception" otherwise)
DictClauses(d, e) == IF PreOk(d, e) THEN Clauses(d, e) ELSE <<>>

SClauses(st, e) ==
  IF st.kind = "null" THEN <<
      <<"no_exception", e.op # "ReadResult" => e.exc = "">>,
      <<"null_storage_never_memoized",
          CASE e.op \in {"IsMemoized", "IsAllMemoized"} -> e.ret = FALSE
            [] e.op = "GetMementos" -> \A i \in 1..Len(e.ret) : e.ret[i] = 0
            [] e.op \in {"ListFunctions", "ListMementos"} -> e.ret = <<>>
            [] e.op = "ReadMetadata" -> e.ret = 0
            [] e.op = "ReadResult" -> e.exc # ""
            [] OTHER -> TRUE>> >>
  ELSE IF e.ro THEN <<
      <<"nothing_written_under_storage_paths", e.muts = 0>>,
      <<"memoize_silently_skipped", e.op = "Memoize" => e.exc = "">>,
      <<"forget_and_metadata_write_rejected", e.op \in Rejected => e.exc = "ValueError">> >>
      \o (IF e.op \in Writes THEN <<>> ELSE DictClauses(st.s, e))
  ELSE DictClauses(st.s, e)

SOk(st, e)  == \A i \in 1..Len(SClauses(st, e)) : SClauses(st, e)[i][2]
SWhy(st, e) == {SClauses(st, e)[i][1] : i \in {j \in 1..Len(SClauses(st, e)) : ~SClauses(st, e)[j][2]}}

SStep(st, e) ==
  IF st.kind = "null" \/ e.ro THEN st
  ELSE IF e.op = "WriteMetadata" /\ ~PreOk(st.s, e)
       THEN [st EXCEPT !.s.meta = Put(st.s.meta, <<e.f, e.h, e.mk>>, Unknown)]
  ELSE [st EXCEPT !.s = DStep(st.s, e)]
=============================================================================
