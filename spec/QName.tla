------------------------------- MODULE QName -------------------------------
(* The splitting law of QNameDef, checked by TLC over token pools (C12). *)
EXTENDS QNameDef

(* the law, checked by TLC over the token pools *)
CONSTANTS Clusters, Modules, Functions, Versions
VARIABLE p
Init == p \in [cluster : Clusters, module : Modules, function : Functions, hasver : BOOLEAN, version : Versions]
Next == UNCHANGED p
Admissible == p.hasver \/ p.version = <<>>
SplitsBack == Admissible => Parts(Build(p)) = p
=============================================================================
