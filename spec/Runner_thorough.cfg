CONSTANTS
  Progs <- MCProgs
  AMax = 1
  MaxOps = 3
  BatchArgs <- MCBatchArgs
INIT Init
NEXT Next
INVARIANT MonOk
INVARIANT ProvenanceExact
INVARIANT StackDiscipline
CHECK_DEADLOCK FALSE
