------------------------------ MODULE OverlayMon ------------------------------
(* Property monitor for C17 (and the run-once half of C02 on partitions).          *)
(* cfg.chain: the levels of a merge chain (own keys, staging kind).                 *)
(* Events: Probe(level, how, exc, keys, own, vals, ran)                              *)
(*   how  "first"  object handed back by a call that (possibly) computed it           *)
(*        "second" object handed back by a later call in the same process              *)
(*        "fresh"  object read back through a new backend object (cold cache)          *)
(*   keys = list_keys(), own = list_keys(False), vals = <<k, tag>> from get(k) for     *)
(*   every listed key (each key loaded on its own), ran = levels whose body ran.        *)
EXTENDS Naturals, Sequences, FiniteSets, TLC

SeqToSet(s) == {s[i] : i \in 1..Len(s)}
\* the value written for own key k at level i carries <<k, i>>; an own key listed in chain[i].nul holds None: <<k, 0>>
Own(chain, i) == [k \in SeqToSet(chain[i].own) |-> <<k, IF k \in SeqToSet(chain[i].nul) THEN 0 ELSE i>>]
Overlay(parent, own) == [k \in DOMAIN parent \cup DOMAIN own |-> IF k \in DOMAIN own THEN own[k] ELSE parent[k]]
\* the level a level merges onto: chain[i].par if given (0: none) -- several levels may share one parent --, else i - 1
Par(chain, i) == IF "par" \in DOMAIN chain[i] THEN chain[i].par ELSE i - 1
RECURSIVE Stored(_, _)
Stored(chain, i) == IF Par(chain, i) = 0 THEN Own(chain, i) ELSE Overlay(Stored(chain, Par(chain, i)), Own(chain, i))
\* a level of kind "pass" hands on the partition object it got from its parent level, unchanged (no own keys)
RECURSIVE EffOwn(_, _)
EffOwn(chain, i) == IF chain[i].kind = "pass" /\ Par(chain, i) # 0 THEN EffOwn(chain, Par(chain, i)) ELSE SeqToSet(chain[i].own)
RECURSIVE Ancestors(_, _)
Ancestors(chain, i) == IF i = 0 THEN {} ELSE {i} \cup Ancestors(chain, Par(chain, i))
SortedKeys(S) == LET RECURSIVE F(_)
                     F(T) == IF T = {} THEN <<>> ELSE LET x == CHOOSE y \in T : \A z \in T : y <= z IN <<x>> \o F(T \ {x})
                 IN F(S)

OInit(cfg) == [chain |-> cfg.chain, done |-> {}]     \* done: levels memoized so far

\* levels whose body must run for a call of level i: i and everything beneath that is not memoized yet
Needed(st, i) == LET RECURSIVE N(_)
                     N(j) == IF j = 0 \/ j \in st.done THEN <<>> ELSE <<j>> \o N(Par(st.chain, j))
                 IN N(i)

Clauses(st, e) ==
  LET s == Stored(st.chain, e.level) IN <<
    <<"partition_usable_without_error", e.exc = "">>,
    <<"key_set_is_parent_keys_plus_own_keys", e.exc = "" => e.keys = SortedKeys(DOMAIN s)>>,
    <<"own_keys_listed_without_parent", e.exc = "" => e.own = SortedKeys(EffOwn(st.chain, e.level))>>,
    <<"each_key_loads_the_overlaid_value",
        e.exc = "" => /\ Len(e.vals) = Cardinality(DOMAIN s)
                      /\ \A i \in 1..Len(e.vals) : e.vals[i][1] \in DOMAIN s /\ s[e.vals[i][1]] = <<e.vals[i][1], e.vals[i][2]>> >>,
    <<"bodies_run_once_and_only_for_unmemoized_levels", e.ran = Needed(st, e.level)>> >>

OOk(st, e)  == \A i \in 1..Len(Clauses(st, e)) : Clauses(st, e)[i][2]
OWhy(st, e) == {Clauses(st, e)[i][1] : i \in {j \in 1..Len(Clauses(st, e)) : ~Clauses(st, e)[j][2]}}
OStep(st, e) == [st EXCEPT !.done = @ \cup Ancestors(st.chain, e.level)]
=============================================================================
