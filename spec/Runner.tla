------------------------------- MODULE Runner -------------------------------
(* Mechanism specification of the sequential runner (M3):                         *)
(*   memento_run_batch / LocalRunnerBackend.batch_run / memento_run_local           *)
(*   (runner_local.py:74-135,145-213,234-397), call_stack.py, propagate_dependencies *)
(* as an explicit-stack interpreter of ProgSem programs:                            *)
(*   - a call first consults the store (bulk pre-check for batches, re-check after   *)
(*     the frame is pushed); a found memento is served and propagated to the caller  *)
(*   - otherwise a frame is pushed, the body runs step by step, the memento under    *)
(*     construction collects invocations / resources / dependency set, the result    *)
(*     (value or memoizable exception) is memoized, the frame popped and the         *)
(*     invocation propagated into the calling frame (also on the exception path)     *)
(*   - nested calls inherit the recursive context unless the call attaches its own   *)
(* The monitor RunnerMon runs in lock step on the root operations: `ok` says that     *)
(* every completed root operation (outcome, bodies run, full memento projection) was   *)
(* accepted by ALL clause groups (C02, C10, C15, C16), i.e. Runner refines ProgSem.    *)
EXTENDS RunnerMon

CONSTANTS Progs, AMax, MaxOps, BatchArgs
VARIABLES P, memo, stack, ran, rq, rvals, cur, out, nops, mon, ok, last

vars == <<P, memo, stack, ran, rq, rvals, cur, out, nops, mon, ok, last>>

Ctxs == {"none", "k1", "k2"}
AllKeys == (1..Len(P)) \X (0..AMax) \X Ctxs
Absent == [present |-> FALSE]
Has(k) == memo[k].present

Frame(k) == [k |-> k, pc |-> 1, invs |-> <<>>, res |-> <<>>, deps |-> {k[1]}, subs |-> <<>>, ab |-> <<>>, u |-> FALSE,
             inbatch |-> FALSE, bq |-> <<>>, bvals |-> <<>>]
Top == stack[Len(stack)]
SetTop(fr) == [stack EXCEPT ![Len(stack)] = fr]
Pop == SubSeq(stack, 1, Len(stack) - 1)
BatchArgsOf(a, ds) == SelectSeq([j \in 1..Len(ds) |-> IF a >= ds[j] THEN a - ds[j] ELSE 99], LAMBDA x : x # 99)

\* propagate_dependencies(caller, result)
Absorb(fr, k, rec) == [fr EXCEPT !.invs = Append(@, k), !.deps = @ \cup {k[1]} \cup rec.deps]

\* the calling frame receives the outcome of the call it was waiting for
Deliver(fr, k, rec) ==
  LET f1 == Absorb(fr, k, rec) IN
  IF fr.inbatch
  THEN [f1 EXCEPT !.bvals = Append(@, rec), !.bq = Tail(@)]
  ELSE LET s == P[fr.k[1]].body[fr.pc] IN
       IF rec.out = "V" \/ s.catch
       THEN [f1 EXCEPT !.subs = Append(@, Seen(s, rec)), !.pc = @ + 1]
       ELSE [f1 EXCEPT !.ab = rec.val, !.pc = @ + 1]

Init ==
  /\ P \in Progs
  /\ memo = [k \in (1..Len(P)) \X (0..AMax) \X Ctxs |-> Absent]
  /\ stack = <<>> /\ ran = <<>> /\ rq = <<>> /\ rvals = <<>>
  /\ cur = [op |-> "none"] /\ out = <<>> /\ nops = 0
  /\ mon = NInit([prog |-> P, prop |-> "all", store |-> "real", runner |-> "local"])
  /\ ok = TRUE /\ last = [op |-> "Init"]

Idle == stack = <<>> /\ rq = <<>> /\ cur.op = "none"

-----------------------------------------------------------------------------
(* root operations issued by the user                                           *)
RootCall(f, a, c) ==
  /\ Idle /\ nops < MaxOps
  /\ cur' = [op |-> "Call", f |-> f, a |-> a, c |-> c, mod |-> "normal"]
  /\ nops' = nops + 1
  /\ IF Has(<<f, a, c>>)
     THEN out' = memo[<<f, a, c>>].val /\ ran' = <<>> /\ UNCHANGED stack
     ELSE stack' = <<Frame(<<f, a, c>>)>> /\ ran' = <<<<f, a>>>> /\ out' = <<>>
  /\ UNCHANGED <<P, memo, rq, rvals, mon, ok, last>>

RootBatch(f, args, c, rf) ==
  /\ Idle /\ nops < MaxOps
  /\ cur' = [op |-> "Batch", f |-> f, args |-> args, c |-> c, rf |-> rf]
  /\ rq' = [j \in 1..Len(args) |-> [k |-> <<f, args[j], c>>, pre |-> Has(<<f, args[j], c>>)]]   \* bulk pre-check
  /\ rvals' = <<>> /\ ran' = <<>> /\ out' = <<>> /\ nops' = nops + 1
  /\ UNCHANGED <<P, memo, stack, mon, ok, last>>

\* batch_run iterates the elements: served if found by the pre-check (or by the re-check inside the mutex)
RootBatchStep ==
  /\ stack = <<>> /\ rq # <<>>
  /\ LET e == Head(rq) IN
     IF e.pre \/ Has(e.k)
     THEN rvals' = Append(rvals, memo[e.k]) /\ rq' = Tail(rq) /\ UNCHANGED <<stack, ran>>
     ELSE stack' = <<Frame(e.k)>> /\ ran' = Append(ran, <<e.k[1], e.k[2]>>) /\ UNCHANGED <<rq, rvals>>
  /\ UNCHANGED <<P, memo, cur, out, nops, mon, ok, last>>

Forget(k) ==
  /\ Idle /\ nops < MaxOps /\ Has(k)
  /\ memo' = [memo EXCEPT ![k] = Absent]
  /\ cur' = [op |-> "Forget", f |-> k[1], a |-> k[2], c |-> k[3]] /\ ran' = <<>> /\ out' = <<>> /\ nops' = nops + 1
  /\ UNCHANGED <<P, stack, rq, rvals, mon, ok, last>>
\* Memento.forget_exceptions_recursively (metadata.py:305-372), as the code does it: through the invocations RECORDED in the
\* mementos, starting from a memoized failed call
RECURSIVE RecordedFailures(_, _)
RecordedFailures(frontier, acc) ==
  IF frontier = {} THEN acc
  ELSE LET k    == CHOOSE x \in frontier : TRUE
           take == Has(k) /\ memo[k].out = "E" /\ k \notin acc
           nxt  == IF take THEN {memo[k].invs[i] : i \in 1..Len(memo[k].invs)} ELSE {}
       IN RecordedFailures((frontier \cup nxt) \ {k}, IF take THEN acc \cup {k} ELSE acc)
ForgetExc(k) ==
  /\ Idle /\ nops < MaxOps /\ Has(k)
  /\ LET F == RecordedFailures({k}, {}) IN memo' = [x \in AllKeys |-> IF x \in F THEN Absent ELSE memo[x]]
  /\ cur' = [op |-> "ForgetExc", f |-> k[1], a |-> k[2], c |-> k[3]] /\ ran' = <<>> /\ out' = <<>> /\ nops' = nops + 1
  /\ UNCHANGED <<P, stack, rq, rvals, mon, ok, last>>
ForgetAll(f) ==
  /\ Idle /\ nops < MaxOps /\ \E k \in AllKeys : k[1] = f /\ Has(k)
  /\ memo' = [k \in AllKeys |-> IF k[1] = f THEN Absent ELSE memo[k]]
  /\ cur' = [op |-> "ForgetAll", f |-> f] /\ ran' = <<>> /\ out' = <<>> /\ nops' = nops + 1
  /\ UNCHANGED <<P, stack, rq, rvals, mon, ok, last>>

-----------------------------------------------------------------------------
(* one step of the frame on top of the call stack                                *)
Step ==
  /\ stack # <<>>
  /\ LET fr == Top
         f == fr.k[1]  a == fr.k[2]  c == fr.k[3]
         body == P[f].body
     IN
     IF fr.inbatch THEN
        IF fr.bq = <<>>
        THEN \* the batch is complete: call_batch returns the list or raises the first exception
             LET s    == body[fr.pc]
                 errs == {j \in 1..Len(fr.bvals) : fr.bvals[j].out # "V"}
                 vals == [j \in 1..Len(fr.bvals) |-> Seen(s, fr.bvals[j])]
                 base == [fr EXCEPT !.inbatch = FALSE, !.bvals = <<>>, !.pc = @ + 1]
             IN /\ stack' = SetTop(
                     IF s.rf /\ errs # {}
                     THEN LET first == fr.bvals[CHOOSE j \in errs : \A k \in errs : j <= k].val IN
                          IF s.catch THEN [base EXCEPT !.subs = Append(@, first)] ELSE [base EXCEPT !.ab = first]
                     ELSE [base EXCEPT !.subs = Append(@, <<"L", vals>>)])
                /\ UNCHANGED <<memo, ran, rq, rvals, out>>
        ELSE LET e == Head(fr.bq) IN
             IF e.pre \/ Has(e.k)
             THEN stack' = SetTop(Deliver(fr, e.k, memo[e.k])) /\ UNCHANGED <<memo, ran, rq, rvals, out>>
             ELSE stack' = Append(stack, Frame(e.k)) /\ ran' = Append(ran, <<e.k[1], e.k[2]>>) /\ UNCHANGED <<memo, rq, rvals, out>>
     ELSE IF fr.pc > Len(body) \/ fr.ab # <<>>
     THEN \* the body returned or raised: memoize, pop, propagate (finally block)
          \* (fr.u: the body returned a value that cannot be stored: memoize fails after the body ran, the call raises, nothing
          \*  is recorded -- the frame is still popped and the invocation propagated to the caller, in the finally block)
          LET rec == [present |-> TRUE, out |-> IF fr.ab = <<>> THEN "V" ELSE IF fr.u THEN "U" ELSE "E",
                      val |-> IF fr.ab = <<>> THEN <<"V", f, a, fr.subs>> ELSE fr.ab,
                      invs |-> fr.invs, res |-> fr.res, deps |-> fr.deps]
          IN /\ memo' = IF fr.u THEN memo ELSE [memo EXCEPT ![fr.k] = rec]
             /\ IF Len(stack) > 1
                THEN /\ stack' = [Pop EXCEPT ![Len(stack) - 1] = Deliver(stack[Len(stack) - 1], fr.k, rec)]
                     /\ UNCHANGED <<rq, rvals, out>>
                ELSE /\ stack' = <<>>                      \* a root frame: outcome of the root call / batch element
                     /\ IF rq # <<>> THEN rvals' = Append(rvals, rec) /\ rq' = Tail(rq) /\ UNCHANGED out
                                     ELSE out' = rec.val /\ UNCHANGED <<rq, rvals>>
             /\ UNCHANGED ran
     ELSE LET s == body[fr.pc] IN
          CASE s.t = "raise" ->
                 /\ stack' = SetTop(IF a = s.when THEN [fr EXCEPT !.ab = <<"E", f, a>>] ELSE [fr EXCEPT !.pc = @ + 1])
                 /\ UNCHANGED <<memo, ran, rq, rvals, out>>
            [] s.t = "bad" ->
                 /\ stack' = SetTop(IF a = s.when THEN [fr EXCEPT !.ab = <<"U">>, !.u = TRUE] ELSE [fr EXCEPT !.pc = @ + 1])
                 /\ UNCHANGED <<memo, ran, rq, rvals, out>>
            [] s.t = "res" ->
                 /\ stack' = SetTop([fr EXCEPT !.res = Append(@, s.r), !.pc = @ + 1]) /\ UNCHANGED <<memo, ran, rq, rvals, out>>
            [] s.t = "call" ->
                 IF a < s.d THEN stack' = SetTop([fr EXCEPT !.pc = @ + 1]) /\ UNCHANGED <<memo, ran, rq, rvals, out>>
                 ELSE LET k2 == <<s.g, a - s.d, CtxAfter(c, s.ctx)>> IN
                      IF Has(k2)
                      THEN stack' = SetTop(Deliver(fr, k2, memo[k2])) /\ UNCHANGED <<memo, ran, rq, rvals, out>>
                      ELSE stack' = Append(stack, Frame(k2)) /\ ran' = Append(ran, <<k2[1], k2[2]>>) /\ UNCHANGED <<memo, rq, rvals, out>>
            [] s.t = "batch" ->
                 LET c2   == CtxAfter(c, s.ctx)
                     args == BatchArgsOf(a, s.ds)
                 IN /\ stack' = SetTop([fr EXCEPT !.inbatch = TRUE, !.bvals = <<>>,
                                                  !.bq = [j \in 1..Len(args) |-> [k |-> <<s.g, args[j], c2>>,
                                                                                   pre |-> Has(<<s.g, args[j], c2>>)]]])
                    /\ UNCHANGED <<memo, ran, rq, rvals, out>>
  /\ UNCHANGED <<P, cur, nops, mon, ok, last>>

-----------------------------------------------------------------------------
(* completion of a root operation: the monitor judges the event                  *)
SetToSeq(S) == LET RECURSIVE F(_)
                   F(T) == IF T = {} THEN <<>> ELSE LET x == CHOOSE y \in T : \A z \in T : y <= z IN <<x>> \o F(T \ {x})
               IN F(S)
KeySeq == LET RECURSIVE G(_)
              G(T) == IF T = {} THEN <<>> ELSE LET x == CHOOSE y \in T : TRUE IN <<x>> \o G(T \ {x})
          IN G({k \in AllKeys : Has(k)})
MemProj == [i \in 1..Len(KeySeq) |-> LET k == KeySeq[i] IN
              [k |-> k, invs |-> memo[k].invs, res |-> memo[k].res, deps |-> SetToSeq(memo[k].deps), out |-> memo[k].out]]

Complete ==
  /\ stack = <<>> /\ rq = <<>> /\ cur.op # "none"
  /\ cur.op = "Call" => out # <<>>
  /\ LET errs == {j \in 1..Len(rvals) : rvals[j].out # "V"}
         bout == IF cur.op # "Batch" THEN <<>>
                 ELSE IF cur.rf /\ errs # {} THEN rvals[CHOOSE j \in errs : \A k \in errs : j <= k].val
                 ELSE <<"L", [j \in 1..Len(rvals) |-> rvals[j].val]>>
         ev == cur @@ [out |-> IF cur.op = "Batch" THEN bout ELSE out, ran |-> ran, mem |-> MemProj, exc |-> ""]
     IN /\ last' = ev
        /\ ok' = (ok /\ NAllWhy(mon, ev) = {})
        /\ mon' = NStep(mon, ev)
  /\ cur' = [op |-> "none"] /\ out' = <<>> /\ rvals' = <<>>
  /\ UNCHANGED <<P, memo, stack, ran, rq, nops>>

Next ==
  \/ \E f \in 1..Len(P), a \in 0..AMax, c \in Ctxs : RootCall(f, a, c) \/ Forget(<<f, a, c>>) \/ ForgetExc(<<f, a, c>>)
  \/ \E f \in 1..Len(P), args \in BatchArgs, c \in {"none", "k1"}, rf \in BOOLEAN : RootBatch(f, args, c, rf)
  \/ \E f \in 1..Len(P) : ForgetAll(f)
  \/ RootBatchStep \/ Step \/ Complete

Spec == Init /\ [][Next]_vars

MonOk == ok
\* every recorded memento is what the reference semantics says, whatever was memoized before (C10)
ProvenanceExact ==
  \A k \in AllKeys : Has(k) =>
      LET d == Den(P, k[1], k[2], k[3]) IN
      /\ memo[k].invs = d.invs /\ memo[k].res = d.res /\ memo[k].deps = d.deps
      /\ memo[k].out = d.out /\ memo[k].val = d.val /\ d.out # "U"
\* the call stack is empty whenever no operation is in progress
StackDiscipline == cur.op = "none" => stack = <<>>
=============================================================================
