CONSTANTS
  FnNames = {"f", "g", "h"}
  RootName = "f"
  AliasNames = {"a"}
  VarNames = {"v"}
  RefChoices <- SimRefChoices
  KindChoices <- MCKindChoices
  MaxEd = 2
  MaxVal = 2
  MaxObjs = 12
  MaxLocks = 1
  MaxEvents = 10
  KF_DefaultsNotHashed = FALSE
  KF_AdoptCached = FALSE
  KF_AliasBlind = FALSE
  KF_OneRulePerKey = FALSE
INIT Init
NEXT SimNext
INVARIANT Coherent
INVARIANT Fresh
CHECK_DEADLOCK FALSE
