------------------------------- MODULE QNameDef -------------------------------
(* Reference definition for the naming half of C12.  Names are sequences of one-  *)
(* character strings.  A qualified name is  [cluster "::"] module ":" function      *)
(* ["#" version].  Admissible parts: cluster, module and function are non-empty and   *)
(* contain neither ":" nor "#"; the version may contain any character.                 *)
EXTENDS Naturals, Sequences, FiniteSets, TLC

Str(s) == s                                         \* names are already sequences of characters
Build(p) == (IF p.cluster = <<>> THEN <<>> ELSE p.cluster \o <<":", ":">>)
            \o p.module \o <<":">> \o p.function
            \o (IF p.hasver THEN <<"#">> \o p.version ELSE <<>>)

First(s, c) == IF \E i \in 1..Len(s) : s[i] = c THEN CHOOSE i \in 1..Len(s) : s[i] = c /\ \A j \in 1..(i - 1) : s[j] # c ELSE 0
\* the intended inverse
Parts(s) ==
  LET i == First(s, ":")
      hascluster == i > 0 /\ i < Len(s) /\ s[i + 1] = ":"
      cluster == IF hascluster THEN SubSeq(s, 1, i - 1) ELSE <<>>
      rest == IF hascluster THEN SubSeq(s, i + 2, Len(s)) ELSE s
      j == First(rest, ":")
      module == SubSeq(rest, 1, j - 1)
      tail == SubSeq(rest, j + 1, Len(rest))
      h == First(tail, "#")
  IN [cluster |-> cluster, module |-> module,
      function |-> IF h = 0 THEN tail ELSE SubSeq(tail, 1, h - 1),
      hasver |-> h # 0,
      version |-> IF h = 0 THEN <<>> ELSE SubSeq(tail, h + 1, Len(tail))]
=============================================================================
