---- MODULE TraceOverlay ----
EXTENDS OverlayMon
VARIABLES tid, l, st
INSTANCE TraceCheck WITH MInit <- OInit, MOk <- OOk, MStep <- OStep, MWhy <- OWhy
====
