CONSTANTS
  Threads = {1, 2, 3}
  Keys = {1, 2, 3}
  Wants <- W3
  Warms <- MCWarms
  VSize <- MCVSize
  MemSize = 1
  Budget = 4
  CacheAtomic = TRUE
  defaultInitValue = defaultInitValue
SPECIFICATION Spec
INVARIANT SingleFlight
INVARIANT NoInternalError
INVARIANT CacheConsistent
INVARIANT Quiescent
PROPERTY Termination
