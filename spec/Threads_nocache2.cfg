CONSTANTS
  Threads = {1, 2}
  Keys = {1, 2, 3}
  Wants <- W2
  Warms <- MCWarmsNoCache
  VSize <- MCVSize
  MemSize = 1
  Budget = 0
  CacheAtomic = TRUE
  defaultInitValue = defaultInitValue
SPECIFICATION Spec
INVARIANT SingleFlight
INVARIANT NoInternalError
INVARIANT CacheConsistent
INVARIANT Quiescent
PROPERTY Termination
