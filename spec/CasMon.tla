------------------------------ MODULE CasMon ------------------------------
(* Property monitor for C07: result blobs are content-addressed, deduplicated    *)
(* and immutable once referenced.  Every event carries                            *)
(*   cas : for each content key present in the store [ck, hashok, nver]          *)
(*         (hashok: SHA-256 of the bytes found under the key equals the key;      *)
(*          nver: number of stored objects for that key)                          *)
(*   mem : for each memento the driver ever wrote in this trace                   *)
(*         [mid, ck (interned "key#version"), ovr, keyok, dig]                    *)
(*         keyok: a non-override content key is "c/" + SHA-256 of the bytes       *)
(*         dig : digest id of what a cache-less reader gets through this memento   *)
(*               now (0: unreadable)                                               *)
(* The monitor tracks which mementos are live (written, and their call neither    *)
(* re-memoized nor forgotten since) and what was stored when each was created.    *)
EXTENDS Naturals, Sequences, FiniteSets, TLC

SeqToSet(s) == {s[i] : i \in 1..Len(s)}
CInit(cfg) == [live |-> <<>>]      \* mid -> [f, h, v, ovr]
Put(d, k, x) == [y \in DOMAIN d \cup {k} |-> IF y = k THEN x ELSE d[y]]

After(st, e) ==
  CASE e.op = "Memoize" /\ e.exc = "" ->
         LET keep == {m \in DOMAIN st.live : ~(st.live[m].f = e.f /\ st.live[m].h = e.h)} IN
         [live |-> Put([m \in keep |-> st.live[m]], e.mid, [f |-> e.f, h |-> e.h, v |-> e.v, ovr |-> e.ovr # 0])]
    [] e.op = "ForgetCall" ->
         [live |-> [m \in {x \in DOMAIN st.live : ~(st.live[x].f = e.f /\ st.live[x].h = e.h)} |-> st.live[m]]]
    [] e.op = "ForgetFunction" ->
         [live |-> [m \in {x \in DOMAIN st.live : st.live[x].f # e.f} |-> st.live[m]]]
    [] e.op = "ForgetEverything" -> [live |-> <<>>]
    [] OTHER -> st

Clauses(st, e) ==
  LET post == After(st, e)
      L    == DOMAIN post.live
      mem  == {x \in SeqToSet(e.mem) : x.mid \in L}
  IN <<
    <<"bytes_under_content_key_hash_to_key", \A i \in 1..Len(e.cas) : e.cas[i].hashok>>,
    <<"one_stored_object_per_content_key", \A i \in 1..Len(e.cas) : e.cas[i].nver = 1>>,
    <<"content_key_is_sha256_of_bytes", \A x \in mem : (~post.live[x.mid].ovr /\ x.ck # 0) => x.keyok>>,
    <<"equal_bytes_share_one_object",
        \A x, y \in mem : (~post.live[x.mid].ovr /\ ~post.live[y.mid].ovr /\ x.ck # 0 /\ y.ck # 0
                            /\ post.live[x.mid].v = post.live[y.mid].v) => x.ck = y.ck>>,
    <<"live_memento_reads_bytes_stored_at_creation", \A x \in mem : x.dig = post.live[x.mid].v>>,
    <<"every_live_memento_reported", \A m \in L : \E x \in mem : x.mid = m>> >>

COk(st, e)  == \A i \in 1..Len(Clauses(st, e)) : Clauses(st, e)[i][2]
CWhy(st, e) == {Clauses(st, e)[i][1] : i \in {j \in 1..Len(Clauses(st, e)) : ~Clauses(st, e)[j][2]}}
CStep(st, e) == After(st, e)
=============================================================================
