---------------------------- MODULE TraceFsWrite ----------------------------
(* Trace validation of recorded executions of the REAL write protocol against the      *)
(* mechanism specification FsWrite (not against a monitor): every file-system step the *)
(* fault injector saw while memoizing calls of f and g -- mkdir, open / write / close of *)
(* object and pointer files, the injected crash or I/O error, forget -- must be a step    *)
(* of FsWrite, in order, and after every call the number of bodies executed so far must   *)
(* be the one the specification predicts (served from the store or recomputed).           *)
(* Steps the recording cannot see (look-up, is_memoized, choice of the content key, and,   *)
(* depending on the file mode, the write or the close of a file) are taken silently.       *)
(* One TLC run checks many traces: tid is chosen in Init, register tid keeps the length    *)
(* of the longest prefix explained.  -workers 1.                                           *)
EXTENDS FsWrite, Sequences, Json, IOUtils

VARIABLES tid, l

DocReg == 1000000
LoadDoc == TLCSet(DocReg, JsonDeserialize(IOEnv.TRACE_FILE))
Traces == TLCGet(DocReg).traces
Ev == Traces[tid].ev[l + 1]

Consume(kind) ==
    /\ l < Len(Traces[tid].ev) /\ Ev.k = kind
    /\ l' = l + 1 /\ UNCHANGED tid
    /\ IF TLCGet(tid) < l + 1 THEN TLCSet(tid, l + 1) ELSE TRUE
Silent(A) == A /\ UNCHANGED <<tid, l>>

\* where the specification must stand when a fault hits the operation `at`
AtOk(at) ==
    CASE at = "mkdir" -> pc \in {"d_mkdir", "d_openobj", "m_mkdir", "m_openobj"}
      [] at = "oo_c" -> pc = "d_openobj" [] at = "wo_c" -> pc = "d_writeobj" [] at = "co_c" -> pc = "d_closeobj"
      [] at = "op_c" -> pc = "d_openptr" [] at = "wp_c" -> pc = "d_writeptr" [] at = "cp_c" -> pc = "d_closeptr"
      [] at = "oo_m" -> pc = "m_openobj" [] at = "wo_m" -> pc = "m_writeobj" [] at = "co_m" -> pc = "m_closeobj"
      [] at = "op_m" -> pc = "m_openptr" [] at = "wp_m" -> pc = "m_writeptr" [] at = "cp_m" -> pc = "m_closeptr"
      [] OTHER -> FALSE

TraceInit ==
    /\ LoadDoc
    /\ tid \in 1..Len(Traces) /\ l = 0
    /\ Init
    /\ TLCSet(tid, 0)

TraceNext ==
    \/ \E fn \in Fns : Consume("begin") /\ Ev.fn = fn /\ Begin(fn)
    \/ \E fn \in Fns : Consume("forget") /\ Ev.fn = fn /\ Forget(fn)
    \/ Consume("mkdir") /\ (DMkdir \/ MMkdir \/ (pc \in {"d_openobj", "m_openobj"} /\ UNCHANGED vars))
    \/ (Consume("oo_c") /\ DOpenObj) \/ (Consume("wo_c") /\ DWriteObj) \/ (Consume("co_c") /\ DCloseObj)
    \/ (Consume("op_c") /\ DOpenPtr) \/ (Consume("wp_c") /\ DWritePtr) \/ (Consume("cp_c") /\ DClosePtr)
    \/ (Consume("oo_m") /\ MOpenObj) \/ (Consume("wo_m") /\ MWriteObj) \/ (Consume("co_m") /\ MCloseObj)
    \/ (Consume("op_m") /\ MOpenPtr) \/ (Consume("wp_m") /\ MWritePtr) \/ (Consume("cp_m") /\ MClosePtr)
    \/ Consume("crash") /\ AtOk(Ev.at) /\ Crash(Ev.half)
    \/ Consume("ioerr") /\ AtOk(Ev.at) /\ IoError(Ev.half)
    \/ Consume("end") /\ pc = "idle" /\ exec["f"] = Ev.exf /\ exec["g"] = Ev.exg /\ raised = Ev.raised /\ UNCHANGED vars
    \* steps the recording does not show
    \/ Silent(Lookup) \/ Silent(IsMemo) \/ Silent(Data) \/ Silent(DDone) \/ Silent(Finish)
    \/ Silent(DWriteObj) \/ Silent(DCloseObj) \/ Silent(DWritePtr) \/ Silent(DClosePtr)
    \/ Silent(MWriteObj) \/ Silent(MCloseObj) \/ Silent(MWritePtr) \/ Silent(MClosePtr)

TraceSpec == TraceInit /\ [][TraceNext]_<<vars, tid, l>>

TraceReport ==
    /\ \A i \in 1..Len(Traces) :
          \/ TLCGet(i) = Len(Traces[i].ev)
          \/ PrintT(<<"REJECT", i, TLCGet(i), {Traces[i].ev[TLCGet(i) + 1].k}, 0>>)
    /\ PrintT(<<"STATS", Len(Traces), 0, Cardinality({i \in 1..Len(Traces) : TLCGet(i) # Len(Traces[i].ev)})>>)
=============================================================================
