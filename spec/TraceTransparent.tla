---- MODULE TraceTransparent ----
EXTENDS TransparentMon
VARIABLES tid, l, st
INSTANCE TraceCheck WITH MInit <- TInit, MOk <- TOk, MStep <- TStep, MWhy <- TWhy
====
