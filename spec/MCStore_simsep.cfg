CONSTANTS
  Fns = {1, 2, 3}
  Hs = {1, 2}
  NV = 5
  Size <- MCSize
  Bytes <- MCBytes
  Weak <- MCWeak
  Budget = 300
  MemSize = 16
  Ovrs = {0, 1, 2}
  MKs = {1, 2}
  SepMeta = TRUE
  MaxVer = 40
  MaxMid = 40
  KF_OversizeStale = FALSE
  KF_StaleRef = FALSE
  KF_MetaByObject = FALSE
INIT Init
NEXT Next
INVARIANT MonOk
CHECK_DEADLOCK FALSE
