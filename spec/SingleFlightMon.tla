--------------------------- MODULE SingleFlightMon ---------------------------
(* Property monitor for C09: threads of one process calling memento functions     *)
(* concurrently.  The events of one execution are totally ordered (the scheduler   *)
(* runs one thread at a time):                                                     *)
(*   Start(t, k) / End(t, k, ok, exc)  a top-level call of thread t                *)
(*   Body(k)                            the body of the function behind key k ran   *)
(*   Quiesce(deadlock, proj, called, seq)  all threads are done (or none can run);  *)
(*        proj = memory-cache projection, called = every key whose result some call  *)
(*        needed, seq = the cache accountings the sequential executions of the same  *)
(*        calls (every order of the threads) leave.                                  *)
(* cfg.warm = keys memoized before the threads start.                               *)
EXTENDS Naturals, Sequences, FiniteSets, TLC

SeqToSet(s) == {s[i] : i \in 1..Len(s)}
RECURSIVE SumSizes(_)
SumSizes(s) == IF s = <<>> THEN 0 ELSE Head(s).size + SumSizes(Tail(s))

SInit(cfg) == [warm |-> SeqToSet(cfg.warm), budget |-> cfg.budget, exec |-> <<>>]
Exec(st, k) == IF k \in DOMAIN st.exec THEN st.exec[k] ELSE 0

Clauses(st, e) ==
  CASE e.op = "Body" -> <<
         <<"memoized_call_never_runs_its_body", e.k \notin st.warm>>,
         <<"body_runs_at_most_once_per_distinct_call", Exec(st, e.k) = 0>> >>
    [] e.op = "End" -> <<
         <<"no_internal_error_escapes_to_a_caller", e.exc = "">>,
         <<"caller_receives_the_correct_value", e.ok>> >>
    [] e.op = "Quiesce" ->
         LET p == e.proj
             keys == {p.ent[i].k : i \in 1..Len(p.ent)} IN <<
         <<"no_deadlock", ~e.deadlock>>,
         <<"every_unmemoized_call_ran_exactly_once",
             \A k \in SeqToSet(e.called) : k \in st.warm \/ Exec(st, k) = 1>>,
         <<"usage_equals_sum_of_resident_sizes", p.usage = SumSizes(p.ent)>>,
         <<"usage_within_budget", st.budget > 0 => p.usage <= st.budget>>,
         <<"recency_list_is_permutation_of_residents",
             Len(p.lru) = Cardinality(SeqToSet(p.lru)) /\ SeqToSet(p.lru) = keys /\ Len(p.ent) = Cardinality(keys)>>,
         <<"accounting_is_what_a_sequential_execution_leaves",
             \E i \in 1..Len(e.seq) : e.seq[i].ent = e.entsorted /\ e.seq[i].usage = p.usage>> >>
    [] e.op = "Start" -> <<>>
    [] OTHER -> << <<"known_event", FALSE>> >>

SOk(st, e)  == \A i \in 1..Len(Clauses(st, e)) : Clauses(st, e)[i][2]
SWhy(st, e) == {Clauses(st, e)[i][1] : i \in {j \in 1..Len(Clauses(st, e)) : ~Clauses(st, e)[j][2]}}
SStep(st, e) ==
  IF e.op = "Body"
  THEN [st EXCEPT !.exec = [k \in DOMAIN st.exec \cup {e.k} |-> IF k = e.k THEN Exec(st, k) + 1 ELSE st.exec[k]]]
  ELSE st
=============================================================================
