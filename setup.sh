#!/bin/sh
# Offline setup: nothing is downloaded or compiled; verify the tool chain and that every
# specification parses (tla-sany), so a broken spec is reported here and not as a verdict.
cd "$(dirname "$0")" || exit 2
command -v java >/dev/null || { echo "java missing"; exit 2; }
test -f /opt/veriftools/tla/tla2tools.jar || { echo "tla2tools.jar missing"; exit 2; }
test -x /venv/bin/python || { echo "/venv/bin/python missing"; exit 2; }
rc=0
for f in spec/*.tla; do
  out=$(cd spec && java -cp /opt/veriftools/tla/tla2tools.jar:/opt/veriftools/tla/CommunityModules-deps.jar tla2sany.SANY "$(basename "$f")" 2>&1)
  if echo "$out" | grep -q "\*\*\* Errors\|Fatal errors\|Could not parse"; then echo "SANY FAILED: $f"; echo "$out" | tail -15; rc=2; fi
done
/venv/bin/python -c "import twosigma.memento, sys; sys.exit(0)" || rc=2
exit $rc
