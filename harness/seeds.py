"""Runs the registered checks under several seeds (and tiers) on the unchanged tree and reports every
run that does not exit 0 -- the false-alarm sweep.

  /venv/bin/python -m harness.seeds [--tier quick|thorough] [--props C01,C02] [--jobs N] seed [seed ...]

Evidence and replay files of these runs go to a scratch directory (never to /verif/evidence); the
summary is printed and written to sweep_<tier>.json in the current directory.
"""
import json
import os
import subprocess
import sys
import tempfile
import time
from concurrent.futures import ThreadPoolExecutor

VERIF = os.path.dirname(os.path.dirname(os.path.abspath(__file__)))
ALL = ["C%02d" % i for i in range(1, 20)]


def main():
    a = sys.argv[1:]
    tier = a[a.index("--tier") + 1] if "--tier" in a else "quick"
    props = a[a.index("--props") + 1].split(",") if "--props" in a else ALL
    njobs = int(a[a.index("--jobs") + 1]) if "--jobs" in a else 3
    skip = set()
    for flag in ("--tier", "--props", "--jobs"):
        if flag in a:
            skip |= {a.index(flag), a.index(flag) + 1}
    seeds = [x for i, x in enumerate(a) if i not in skip]
    scratch = tempfile.mkdtemp(prefix="verif_sweep_")
    runs = [(p, s) for s in seeds for p in props]

    def one(ps):
        p, s = ps
        t0 = time.time()
        env = dict(os.environ, VERIF_SEED=str(s), VERIF_EVIDENCE_DIR=os.path.join(scratch, "ev_%s" % s),
                   VERIF_REPLAY_DIR=os.path.join(scratch, "rp_%s" % s), VERIF_NPROC=str(max(4, 16 // njobs)))
        c = subprocess.run([os.path.join(VERIF, "check"), p, "--tier", tier], capture_output=True, text=True, env=env, cwd=VERIF)
        lines = c.stdout.split("\n")
        rec = {"prop": p, "seed": s, "rc": c.returncode, "wall_s": round(time.time() - t0, 1),
               "violations": sum(1 for ln in lines if ln.startswith("VIOLATION")),
               "known": [ln[:160] for ln in lines if ln.startswith("KNOWN-FINDING")],
               "facts": [ln.strip()[:500] for ln in lines if ln.strip().startswith("facts:")][:4]}
        if c.returncode == 2:
            rec["tail"] = (c.stdout[-1200:] + c.stderr[-1200:])
        print("%s seed=%s rc=%d violations=%d known=%d %.0fs" % (p, s, c.returncode, rec["violations"], len(rec["known"]), rec["wall_s"]), flush=True)
        for f in rec["facts"][:2]:
            print("    " + f[:400], flush=True)
        if c.returncode == 2:
            print("    MACHINERY " + rec["tail"][-600:], flush=True)
        return rec

    with ThreadPoolExecutor(max_workers=njobs) as ex:
        res = list(ex.map(one, runs))
    bad = [r for r in res if r["rc"] != 0]
    with open("sweep_%s.json" % tier, "w") as f:
        json.dump({"tier": tier, "seeds": seeds, "runs": res}, f, indent=1)
    print("SWEEP %s: %d runs, %d not clean: %s" % (tier, len(res), len(bad), [(r["prop"], r["seed"], r["rc"]) for r in bad]))
    print("replays kept under %s" % scratch if bad else "all clean")
    sys.exit(1 if bad else 0)


if __name__ == "__main__":
    main()
