"""C11: the JSON metadata codec round-trips and keeps its cross-language wire format."""
import datetime
import json
import math
import os

from . import common, tlc
from .check_argkey import rand_value, LEAVES
from .common import Report, Scratch, rng

QN = {"s1": "va::verif_args:s1#1", "s2": "va::verif_args:s2#1", "s3": "va::verif_args:s3#1", "s4": "va::verif_args:s4#1",
      "target": "va::verif_args:target#7", "ext": "va::gone.module:helper#9"}
PARAMS = {"s1": ["a"], "s2": ["a", "b"], "s3": ["a", "b", "k"], "s4": ["x", "y", "z"], "target": ["p", "q"], "ext": ["p", "q"]}
RTYPES = ["null", "boolean", "string", "number", "list_result", "dictionary", "exception", "data_frame", "partition", "timestamp"]
TIMES = ["2021-03-04T05:06:07.000008+00:00", "2021-03-04T05:06:07+00:00", "2021-03-04T05:06:07", "2021-03-04T05:06:07.500000+05:30",
         "2020-02-29T00:00:00+00:00", "1999-12-31T23:59:59.999999-03:00"]


def split_dt(iso):
    dt = datetime.datetime.fromisoformat(iso)
    txt = dt.isoformat()
    if dt.tzinfo is None:
        return txt, ""
    return txt[:-6], txt[-6:]


def term(s):
    t = s["t"]
    if t == "none":
        return {"t": "none"}
    if t == "bool":
        return {"t": "bool", "v": bool(s["v"])}
    if t == "int":
        return {"t": "int", "lex": json.dumps(int(s["v"]))}
    if t == "float":
        return {"t": "float", "lex": json.dumps(float(s["v"]))}
    if t == "str":
        return {"t": "str", "s": s["v"]}
    if t == "date":
        return {"t": "date", "iso": datetime.date.fromisoformat(s["v"]).isoformat()}
    if t == "datetime":
        b, o = split_dt(s["v"])
        return {"t": "datetime", "base": b, "off": o}
    if t == "list":
        return {"t": "list", "v": [term(x) for x in s["v"]]}
    if t == "dict":
        return {"t": "dict", "es": [{"k": k, "v": term(v)} for k, v in s["v"]]}
    if t == "fnref":
        if "qn" in s:        # a reference recorded from a real run: its own name and parameter names
            return dict(fnref_term(s), t="fnref")
        return dict(fnref_term({"name": "ext" if s.get("ext") else "target", "pargs": s.get("pargs", []), "pkw": s.get("pkw", [])}), t="fnref")
    raise ValueError(t)


def fnref_term(f):
    params = f["params"] if "qn" in f else PARAMS[f["name"]]
    return {"qn": f["qn"] if "qn" in f else QN[f["name"]], "pargs": [term(x) for x in f.get("pargs", [])],
            "pkw": [{"k": k, "v": term(v)} for k, v in f.get("pkw", [])], "params": params}


def fwa_term(x):
    return {"fn": fnref_term(x["fn"]), "args": [term(a) for a in x.get("args", [])],
            "kw": [{"k": k, "v": term(v)} for k, v in x.get("kw", [])], "ctx": [{"k": k, "v": term(v)} for k, v in x.get("ctx", [])]}


FINITE_LEAVES = [x for x in LEAVES if not (x["t"] == "float" and x["v"] in ("nan", "inf", "-inf"))]
_POOL = [None]


def mark_ext(r, v):
    """some function references among the argument values point at a function this process cannot resolve"""
    if v["t"] == "fnref" and r.random() < 0.4:
        v["ext"] = True
    elif v["t"] == "list":
        for x in v["v"]:
            mark_ext(r, x)
    elif v["t"] == "dict":
        for _, x in v["v"]:
            mark_ext(r, x)
    return v


def rv(r, depth):
    return mark_ext(r, rand_value(r, depth, _POOL[0]))


def rand_fwa(r, depth=2):
    name = r.choice(["s1", "s2", "s3", "s4"])
    params = PARAMS[name]
    fn = {"name": name, "pargs": [], "pkw": []}
    bound = list(params)
    if name == "s3" and r.random() < 0.5:
        bound = ["a"]
    if name == "s4" and r.random() < 0.5:
        bound = ["x", "y"]
    vals = {p: rv(r, depth) for p in bound}
    npos = r.randint(0, len([p for p in bound if p != "k"]))
    pos = [p for p in bound if p != "k"][:npos]
    if pos and r.random() < 0.3:
        fn["pargs"] = [vals[pos[0]]]
        pos = pos[1:]
        used = 1
    else:
        used = 0
    args = [vals[p] for p in pos]
    kw = [[p, vals[p]] for p in bound if p not in ([q for q in bound if q != "k"][:npos])]
    ctx = [["k", rv(r, 0)]] if r.random() < 0.3 else []
    return {"fn": fn, "args": args, "kw": kw, "ctx": ctx}


def rand_memento(r, i):
    # non-finite floats (open finding C11-nonfinite-float-argument-not-plain-json) are confined to every 10th memento
    _POOL[0] = LEAVES if i % 10 == 0 else FINITE_LEAVES
    m = {"time": r.choice(TIMES), "fwa": rand_fwa(r), "invs": [rand_fwa(r, 1) for _ in range(r.randint(0, 3))],
         "res": [{"rtype": "file", "url": "file:///tmp/res %d#x" % j, "version": str(1600000000000 + j)} for j in range(r.randint(0, 2))],
         "runtime": r.choice(["0.0", "123.0", "0.000123", "86400.5", "1e-06"]), "rtype": r.choice(RTYPES),
         "deps": [{"name": n} for n in r.sample(["s1", "s2", "s3", "s4", "target"], r.randint(1, 3))],
         "runner": [["type", "local"]], "corr": "cid_%012x" % r.getrandbits(48),
         "ck": r.choice([[], ["c/" + "%064x" % r.getrandbits(256), "8d2a6a5e-0b1c-4d0e-9c3a-%012x" % r.getrandbits(48)],
                         ["ovr/key#with#hash", "8d2a6a5e-0b1c-4d0e-9c3a-%012x" % r.getrandbits(48)]])}
    return m


def memento_term(m):
    b, o = split_dt(m["time"])
    return {"time": {"base": b, "off": o}, "fwa": fwa_term(m["fwa"]), "invs": [fwa_term(x) for x in m["invs"]], "res": m["res"],
            "runtime": json.dumps(float(m["runtime"])), "rtype": m["rtype"], "deps": [fnref_term(d) for d in m["deps"]],
            "runner": [{"k": k, "v": v} for k, v in m["runner"]], "corr": m["corr"], "ck": m["ck"]}


def convert(x):
    """markers of Codec.tla -> JSON values"""
    if isinstance(x, dict):
        if set(x.keys()) == {"$emptyobj"}:
            return {}
        if set(x.keys()) == {"num"}:
            return float(x["num"]) if any(c in x["num"] for c in ".eEn") or x["num"] in ("Infinity", "-Infinity", "NaN") else int(x["num"])
        return {k: convert(v) for k, v in x.items()}
    if isinstance(x, list):
        return [convert(v) for v in x]
    if x == "$null":
        return None
    if x == "$emptyobj":
        return {}
    return x


def same_doc(a, b, path=""):
    """structural equality; functionDependencies is an unordered collection"""
    if isinstance(a, dict) and isinstance(b, dict):
        if set(a.keys()) != set(b.keys()):
            return False, path + ": keys %s vs %s" % (sorted(a.keys()), sorted(b.keys()))
        for k in a:
            if k == "functionDependencies" and isinstance(a[k], list) and isinstance(b[k], list):
                ka = sorted(json.dumps(x, sort_keys=True) for x in a[k])
                kb = sorted(json.dumps(x, sort_keys=True) for x in b[k])
                if ka != kb:
                    return False, path + ".functionDependencies"
                continue
            ok, why = same_doc(a[k], b[k], path + "." + k)
            if not ok:
                return ok, why
        return True, ""
    if isinstance(a, list) and isinstance(b, list):
        if len(a) != len(b):
            return False, path + ": length"
        for i, (x, y) in enumerate(zip(a, b)):
            ok, why = same_doc(x, y, "%s[%d]" % (path, i))
            if not ok:
                return ok, why
        return True, ""
    if isinstance(a, float) or isinstance(b, float):
        if isinstance(a, bool) or isinstance(b, bool):
            return False, path + ": bool vs number"
        try:
            fa, fb = float(a), float(b)
        except (TypeError, ValueError):
            return False, path
        return ((math.isnan(fa) and math.isnan(fb)) or fa == fb), path
    if type(a) is not type(b):
        return False, path + ": %s vs %s" % (type(a).__name__, type(b).__name__)
    return a == b, path


def has_nonfinite(s):
    if isinstance(s, dict):
        if s.get("t") == "float" and s.get("v") in ("nan", "inf", "-inf"):
            return True
        return any(has_nonfinite(v) for v in s.values())
    if isinstance(s, list):
        return any(has_nonfinite(v) for v in s)
    return False


def suite_mementos(rep, wd):
    """every memento the repository's own test suite encodes (recorded by the pytest plugin with the emitted text and the
    outcome of decoding it again): the document must be Wire(m) of Codec.tla, validated like the generated ones"""
    from . import suite_rec
    doc = suite_rec.record_suite(wd)
    recs = doc.get("mementos", [])
    bad = [r_ for r_ in recs if "recorder_error" in r_]
    if bad:
        raise common.Machinery("memento recorder failed: %s" % bad[0]["recorder_error"])
    if not recs:
        raise common.Machinery("the recording run of the test suite encoded no memento")
    cases = [{"id": i + 1, "m": memento_term(r_["m"])} for i, r_ in enumerate(recs)]
    inp, outp = os.path.join(wd, "suite_cases.json"), os.path.join(wd, "suite_docs.ndjson")
    with open(inp, "w") as f:
        json.dump({"cases": cases}, f)
    tr = tlc.run("Codec", "Codec.cfg", wd, workers=1, env={"TRACE_FILE": inp, "OUT_FILE": outp}, timeout=900, jvm=("-Xss64m",))
    if tr["errors"] or not os.path.exists(outp):
        raise tlc.TlcError("Codec.tla failed on the suite's mementos:\n" + "\n".join(tr["stdout"].split("\n")[-40:]))
    rep.add_tlc(tr, "Codec.tla: Wire(m) of every memento the repository's test suite encodes")
    docs = {}
    with open(outp) as f:
        for line in f:
            if line.strip():
                d = json.loads(line)
                docs[d["id"]] = convert(d["doc"])
    traces = []
    for i, t in enumerate(recs):
        wireok, why = False, ""
        try:
            wireok, why = same_doc(json.loads(t["text"]), docs[i + 1])
        except ValueError as e:
            why = str(e)
        traces.append({"cfg": {"id": i + 1}, "ev": [{"op": "Encode", "strict": bool(t["strict"]), "wireok": bool(wireok), "rtok": bool(t["rtok"]),
                                                      "hashok": bool(t["hashok"]), "exc": t["exc"], "detail": (t["detail"] + " " + why)[:200]}]})
    payload = [{"cfg": t["cfg"], "ev": [{k: v for k, v in e.items() if k != "detail"} for e in t["ev"]]} for t in traces]
    rej, vr = tlc.validate_traces("TraceCodec", payload, wd, timeout=900)
    rep.add_tlc(vr, "trace validation TraceCodec (mementos of the repository's test suite)")
    rep.cov["suite_mementos_validated"] = len(traces)
    rep.cov["suite_mementos_outside_domain"] = {k: v for k, v in doc.get("args_outside_domain", {}).items() if k.startswith("memento:")}
    rep.cov["suite_pytest"] = doc.get("pytest_summary", "")
    for rj in rej:
        t, m = traces[rj["tid"] - 1], recs[rj["tid"] - 1]
        e = t["ev"][0]
        facts = {"property": "C11", "kind": "suite", "why": sorted(rj["why"]), "exc": e["exc"][:100], "nonfinite_float_argument": has_nonfinite(m["m"]),
                 "detail": e["detail"][:120], "test": m.get("test", "")}
        rep.violation(facts, {"memento": m["m"], "text": m["text"], "event": e, "failed_clauses": sorted(rj["why"])})
    return len(rej)


def run(prop, tier):
    rep = Report(prop, tier)
    quick = tier == "quick"
    r = rng(prop)
    with Scratch(prop) as wd:
        n = 300 if quick else 8000
        ms = [rand_memento(r, i) for i in range(n)]
        cases = [{"id": i + 1, "m": memento_term(m)} for i, m in enumerate(ms)]
        inp, outp = os.path.join(wd, "cases.json"), os.path.join(wd, "docs.ndjson")
        with open(inp, "w") as f:
            json.dump({"cases": cases}, f)
        tr = tlc.run("Codec", "Codec.cfg", wd, workers=1, env={"TRACE_FILE": inp, "OUT_FILE": outp}, timeout=1500, jvm=("-Xss64m",))
        if tr["errors"] or not os.path.exists(outp):
            raise tlc.TlcError("Codec.tla failed:\n" + "\n".join(tr["stdout"].split("\n")[-40:]))
        rep.add_tlc(tr, "Codec.tla: Wire(m) of every case; {type,value} encoding law on the definition")
        rep.cov["states"] = max(rep.cov["states"], len(cases))
        rep.cov["transitions"] = max(rep.cov["transitions"], len(cases))
        docs = {}
        with open(outp) as f:
            for line in f:
                if line.strip():
                    d = json.loads(line)
                    docs[d["id"]] = convert(d["doc"])
        if len(docs) != len(cases):
            raise tlc.TlcError("Codec.tla produced %d documents for %d cases" % (len(docs), len(cases)))
        res = common.run_jobs("codec_worker.py", [{"id": i + 1, "m": m} for i, m in enumerate(ms)], wd, timeout=2400)
        traces = []
        for m, t in zip(ms, res):
            wireok, why = False, ""
            if t["text"]:
                try:
                    wireok, why = same_doc(json.loads(t["text"]), docs[t["id"]])
                except ValueError as e:
                    why = str(e)
            ev = {"op": "Encode", "strict": bool(t["strict"]), "wireok": bool(wireok), "rtok": bool(t["rtok"]), "hashok": bool(t["hashok"]),
                  "exc": t["exc"], "detail": (t["detail"] + " " + why)[:200]}
            traces.append({"cfg": {"id": t["id"]}, "ev": [ev]})
        payload = [{"cfg": t["cfg"], "ev": [{k: v for k, v in e.items() if k != "detail"} for e in t["ev"]]} for t in traces]
        rej, vr = tlc.validate_traces("TraceCodec", payload, wd, timeout=1500)
        rep.add_tlc(vr, "trace validation TraceCodec")
        rep.cov["traces_validated_against_impl"] = len(traces)
        rep.cov["evaluations"] = len(traces)
        rep.cov["distinct_nontrivial"] = len({json.dumps(m, sort_keys=True) for m in ms})
        rep.cov["rule"] = ("random mementos: arguments from the C04 domain (nested lists/dicts, dates, naive/UTC/offset datetimes, "
                           "non-finite floats, non-ASCII text, function references with partials), positional/keyword/partial/context "
                           "arguments, 0-3 invocations, 0-2 resource handles, 1-3 dependencies, content keys (none, content hash, override "
                           "key containing '#'), times with and without zone")
        rep.sample({"memento": ms[0], "wire_from_Codec_tla": docs[1], "event": traces[0]["ev"][0]})
        for rj in rej:
            t = traces[rj["tid"] - 1]
            m = ms[rj["tid"] - 1]
            e = t["ev"][0]
            facts = {"property": prop, "why": sorted(rj["why"]), "exc": e["exc"][:100], "nonfinite_float_argument": has_nonfinite(m),
                     "detail": e["detail"][:120]}
            rep.violation(facts, {"memento": m, "event": e, "failed_clauses": sorted(rj["why"])})
        suite_mementos(rep, wd)
        rep.assumptions += ["number and time lexical forms come from Python's json/datetime; structural comparison of documents is done by the harness"]
    return rep.finish()
