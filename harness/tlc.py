"""Thin driver around TLC: model checking, simulation (behaviour generation) and batched
trace validation.  Nothing here decides a property; it runs TLC and parses what TLC says."""
import json
import os
import re
import shutil
import subprocess
import tempfile
import time

from . import tlaparse

SPEC_DIR = os.path.join(os.path.dirname(os.path.dirname(os.path.abspath(__file__))), "spec")
JAR = "/opt/veriftools/tla/tla2tools.jar"
DEPS = "/opt/veriftools/tla/CommunityModules-deps.jar"


class TlcError(Exception):
    """Machinery failure (TLC crashed, spec does not parse...). Never a property violation."""


def _java_cmd(extra_jvm=()):
    return ["java", "-XX:+UseParallelGC", "-Xss16m", *extra_jvm, "-cp", JAR + ":" + DEPS, "tlc2.TLC"]


def _prepare(workdir, module):
    """Copy the spec directory into workdir so TLC's generated files never land in /verif."""
    dst = os.path.join(workdir, "spec")
    if not os.path.isdir(dst):
        shutil.copytree(SPEC_DIR, dst)
    return dst


_RE_STATES = re.compile(r"(\d+) states generated, (\d+) distinct states found, (\d+) states left on queue")
_RE_DEPTH = re.compile(r"The depth of the complete state graph search is (\d+)")
_RE_SIM = re.compile(r"The number of states generated: (\d+)")


def run(module, cfg, workdir, workers=8, args=(), env=None, timeout=1500, jvm=()):
    spec = _prepare(workdir, module)
    meta = tempfile.mkdtemp(prefix="meta_", dir=workdir)
    cmd = _java_cmd(jvm) + [
        "-workers", str(workers), "-metadir", meta, "-noGenerateSpecTE",
        "-config", cfg, *args, module + ".tla",
    ]
    e = dict(os.environ)
    if env:
        e.update(env)
    t0 = time.time()
    try:
        p = subprocess.run(cmd, cwd=spec, env=e, capture_output=True, text=True, timeout=timeout)
    except subprocess.TimeoutExpired as ex:
        raise TlcError("TLC timed out after %ss: %s" % (timeout, " ".join(cmd))) from ex
    finally:
        shutil.rmtree(meta, ignore_errors=True)
    out = p.stdout + "\n" + p.stderr
    res = {
        "cmd": " ".join(cmd[cmd.index("tlc2.TLC"):]),
        "stdout": out,
        "rc": p.returncode,
        "wall_s": round(time.time() - t0, 2),
        "generated": 0, "distinct": 0, "depth": 0,
    }
    ms = _RE_STATES.findall(out)
    if ms:
        g, d, q = ms[-1]
        res.update(generated=int(g), distinct=int(d), queue=int(q))
    md = _RE_DEPTH.findall(out)
    if md:
        res["depth"] = int(md[-1])
    msim = _RE_SIM.findall(out)
    if msim:
        res["generated"] = int(msim[-1])
    res["errors"] = [ln for ln in out.split("\n") if ln.startswith("Error:")]
    return res


def model_check(module, cfg, workdir, workers=16, timeout=1500, args=()):
    """Exhaustive check. Returns result dict; raises TlcError if TLC reports any error
    (a failing model check of the *design* is a machinery/spec failure, never a code verdict)."""
    r = run(module, cfg, workdir, workers=workers, timeout=timeout, args=args)
    if r["errors"] or "Model checking completed. No error has been found." not in r["stdout"]:
        tail = "\n".join(r["stdout"].split("\n")[-60:])
        raise TlcError("model check of %s/%s failed:\n%s" % (module, cfg, tail))
    return r


def expect_counterexample(module, cfg, invariant, workdir, workers=4, timeout=600):
    """A configuration that switches a documented deviation of the code on (constant KF_*) must make TLC violate the named
    invariant: the check that the invariants of the design are not vacuous.  Raises TlcError when it does not."""
    res = run(module, cfg, workdir, workers=workers, timeout=timeout)
    want = "Error: Invariant %s is violated." % invariant
    if want not in res["errors"]:
        raise TlcError("%s no longer yields a counterexample to %s (vacuous invariant or model?): %s"
                       % (cfg, invariant, res["errors"][:2] or res["stdout"][-300:]))
    return res


def simulate(module, cfg, workdir, num, depth, seed, timeout=600, only=None):
    """Generate `num` behaviours of length <= depth; returns (list of behaviours, result).
    A behaviour is the list of steps from tlaparse.parse_trace_file."""
    outdir = tempfile.mkdtemp(prefix="sim_", dir=workdir)
    r = run(
        module, cfg, workdir, workers=1,
        args=["-simulate", "file=%s/tr,num=%d" % (outdir, num), "-depth", str(depth),
              "-seed", str(seed), "-deadlock"],
        timeout=timeout,
    )
    if r["errors"]:
        tail = "\n".join(r["stdout"].split("\n")[-60:])
        raise TlcError("simulation of %s/%s failed:\n%s" % (module, cfg, tail))
    behaviours = []
    for fn in sorted(os.listdir(outdir), key=lambda s: [int(x) for x in re.findall(r"\d+", s)]):
        behaviours.append(tlaparse.parse_trace_file(os.path.join(outdir, fn), only=only))
    shutil.rmtree(outdir, ignore_errors=True)
    return behaviours, r


def validate_traces(module, traces, workdir, cfg=None, timeout=1500, extra=None):
    """Batched trace validation.  `traces` is a list of dicts {"cfg": {...}, "ev": [event,...]}.
    The trace module (spec/Trace*.tla via TraceCheck.tla) prints one
    <<"REJECT", tid, acceptedPrefix, why, state>> per rejected trace and
    <<"STATS", nTraces, nEvents>>.  Returns (rejections, result)."""
    path = os.path.join(workdir, "traces_%s_%d.json" % (module, int(time.time() * 1000) % 10**9))
    doc = {"traces": traces}
    if extra:
        doc.update(extra)
    with open(path, "w") as f:
        json.dump(doc, f)
    if not traces:
        return [], {"generated": 0, "distinct": 0, "depth": 0, "wall_s": 0, "stdout": "", "cmd": ""}
    r = run(module, cfg or (module + ".cfg"), workdir, workers=1, env={"TRACE_FILE": path}, timeout=timeout)
    out = r["stdout"]
    stats = tlaparse.extract_printed(out, "STATS")
    if not stats or stats[-1][1] != len(traces):
        tail = "\n".join(out.split("\n")[-60:])
        raise TlcError("trace validation %s did not complete:\n%s" % (module, tail))
    rej = []
    for v in tlaparse.extract_printed(out, "REJECT"):
        rej.append({"tid": v[1], "prefix": v[2], "why": v[3], "state": v[4] if len(v) > 4 else None})
    if len(rej) != stats[-1][3]:
        raise TlcError("trace validation %s: parsed %d rejections but TLC counted %d" % (module, len(rej), stats[-1][3]))
    os.unlink(path)
    return rej, r
