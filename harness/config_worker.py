"""C18 worker.  job = {"env": [[{"name", "opts", "args"}...]...], "how": delivery form}
Builds the environment through the delivery form and probes every cluster name behaviourally."""
import json
import os
import shutil
import sys
import tempfile

import twosigma.memento as m
from twosigma.memento.configuration import ConfigurationRepository, Environment, FunctionCluster
from twosigma.memento.runner import RunnerBackend
from twosigma.memento.storage import StorageBackend

import verif_conf
import verif_side

NAMES = ["ka", "kb", "kc"]


def val(o, k):
    return o[k][0] if o.get(k) else None


def dirs(base, ri, c):
    """directories a cluster definition may refer to: pathid -> dir"""
    return lambda pid: os.path.join(base, "r%d_%s_p%d" % (ri, c, pid))


def storage_config(o, d):
    cfg = {}
    if val(o, "stype") is not None:
        cfg["type"] = val(o, "stype")
    if val(o, "path") is not None:
        cfg["path"] = d(val(o, "path"))
    if val(o, "meta") is not None and val(o, "meta") != 0:
        cfg["metadata_path"] = d(val(o, "meta"))
    if val(o, "cache") is not None and val(o, "cache") != 0:
        cfg["memory_cache_mb"] = val(o, "cache")
    if val(o, "ro") is not None:
        cfg["readonly"] = val(o, "ro")
    return cfg


def make_storage(opts, args, d):
    """storage backend from configuration options + explicit constructor arguments"""
    cfg = storage_config(opts, d)
    stype = val(args, "stype") or cfg.get("type") or "filesystem"
    cfg.setdefault("type", stype)
    if stype != "filesystem":
        from twosigma.memento.storage_memory import MemoryStorageBackend
        from twosigma.memento.storage_null import NullStorageBackend
        if stype == "memory":
            return MemoryStorageBackend(config=cfg, read_only=val(args, "ro"))
        return NullStorageBackend(config=cfg)
    from twosigma.memento.storage_filesystem import FilesystemStorageBackend
    kw = {}
    if val(args, "path") is not None:
        kw["path"] = d(val(args, "path"))
    if val(args, "meta") is not None:
        # 0: metadata explicitly kept with the data
        kw["metadata_path"] = d(val(args, "meta")) if val(args, "meta") != 0 else (kw.get("path") or cfg.get("path"))
    if val(args, "cache") is not None:
        kw["memory_cache_mb"] = val(args, "cache")          # 0: explicitly no cache
    if val(args, "ro") is not None:
        kw["read_only"] = val(args, "ro")
    return FilesystemStorageBackend(config=cfg, **kw)


def merged(opts, args):
    out = {}
    for k in ("stype", "path", "meta", "cache", "ro", "rtype"):
        out[k] = args.get(k) or opts.get(k) or []
    return out


def cluster_dict(c, d, o):
    cd = {"name": c.get("own", c["name"])}
    sc = storage_config(o, d)
    if sc:
        sc.setdefault("type", "filesystem")
        cd["storage"] = sc
    if val(o, "rtype") is not None:
        cd["runner"] = {"type": val(o, "rtype")}
    return cd


def build_env(env, how, base):
    repos = []
    if how == "ctor":
        for ri, repo in enumerate(env, start=1):
            clusters = {}
            for c in repo:
                d = dirs(base, ri, c["name"])
                rt = val(c["args"], "rtype") or val(c["opts"], "rtype")
                runner = RunnerBackend.create(rt, {}) if rt else None
                # the key a cluster is registered under (what functions name) need not be the cluster's own name
                clusters[c["name"]] = FunctionCluster(name=c.get("own", c["name"]), storage=make_storage(c["opts"], c["args"], d), runner=runner)
            repos.append(ConfigurationRepository(name="r%d" % ri, clusters=clusters))
        return Environment(name="e", base_dir=base, repos=repos)
    # declarative forms carry the merged options (there is no separate argument channel in a file)
    repo_dicts = []
    for ri, repo in enumerate(env, start=1):
        cl = {}
        for c in repo:
            d = dirs(base, ri, c["name"])
            cl[c["name"]] = cluster_dict(c, d, merged(c["opts"], c["args"]))
        repo_dicts.append({"name": "r%d" % ri, "clusters": cl})
    if how == "dict":
        return Environment({"name": "e", "base_dir": base, "repos": repo_dicts})
    if how == "json":
        paths = []
        for ri, rd in enumerate(repo_dicts, start=1):
            rdir = os.path.join(base, "conf", "r%d" % ri)
            os.makedirs(rdir, exist_ok=True)
            for cname, cd in list(rd["clusters"].items()):     # every second cluster in its own file, by relative path
                if (ri + len(cname)) % 2 == 0:
                    with open(os.path.join(rdir, cname + ".json"), "w") as f:
                        json.dump(cd, f)
                    rd["clusters"][cname] = cname + ".json"
            with open(os.path.join(rdir, "memento.json"), "w") as f:
                json.dump(rd, f)
            paths.append(os.path.join(rdir, "memento.json"))
        envp = os.path.join(base, "conf", "env.json")
        with open(envp, "w") as f:
            json.dump({"name": "e", "repos": paths}, f)
        return Environment.from_file(envp)
    if how == "yaml":
        import yaml
        for ri, rd in enumerate(repo_dicts, start=1):
            rdir = os.path.join(base, "conf", "r%d" % ri)
            os.makedirs(rdir, exist_ok=True)
            if ri % 2:
                text = yaml.safe_dump(rd).replace(base, "{{ root }}")          # template parameter
                with open(os.path.join(rdir, "memento.yaml"), "w") as f:
                    f.write(text)
                repos.append(ConfigurationRepository.from_file(os.path.join(rdir, "memento.yaml"), root=base))
            else:                                                              # template whose parameter has a default, none passed
                text = yaml.safe_dump(rd).replace(base, "{{ root | default('%s') }}" % base)
                with open(os.path.join(rdir, "memento.yaml"), "w") as f:
                    f.write(text)
                repos.append(ConfigurationRepository.from_file(os.path.join(rdir, "memento.yaml")))
        return Environment(name="e", base_dir=base, repos=repos)
    raise ValueError(how)


def has_files(root, suffix=None, sub=None):
    if not root or not os.path.isdir(root):
        return False
    for dp, dn, fn in os.walk(root):
        for f in fn:
            if suffix is None or f.endswith(suffix) or (".memento.json" in f and suffix == ".memento.json"):
                if sub is None or (os.sep + sub + os.sep) in (dp + os.sep):
                    return True
    return False


def snapshot(layout_c):
    """all files under the directories the definitions of one cluster name may refer to"""
    out = set()
    for ri, paths in layout_c.items():
        for pid, p in paths.items():
            for dp, dn, fn in os.walk(p):
                for f in fn:
                    out.add((ri, pid, os.path.join(dp, f)))
    return out


def probe(env, ename, cname, layout, arg=1, destructive=True, order=None):
    """behaviour of cluster cname in environment env (order: original repository indices in current priority order)"""
    Environment.set(env)
    fn = verif_conf.FNS[cname]
    b = {"runs": False, "stores": False, "datafiles": False, "metasep": False, "cached": False, "rejects": False}
    ev = {"op": "Probe", "cluster": cname, "how": ename, "found": True, "repo": 0, "dpid": 0, "mpid": 0, "b": b, "exc": ""}
    cluster = env.get_cluster(cname)
    if cluster is None:
        ev["found"] = False
        try:
            fn(arg)
            ev["exc"] = "call of a function of an undefined cluster did not fail"
        except ValueError:
            pass
        return ev
    try:
        before = snapshot(layout.get(cname, {}))
        verif_side.log.reset()
        try:
            fn(arg)
            b["runs"] = bool(verif_side.log.take())
        except RuntimeError as e:
            if "Null runner" not in str(e):
                raise
            b["runs"] = False
        if b["runs"]:
            verif_side.log.reset()
            fn(arg)
            b["stores"] = not verif_side.log.take()
        # where did the data go?
        new = snapshot(layout.get(cname, {})) - before
        for ri, pid, path in sorted(new):
            pos = (order.index(int(ri)) + 1) if order else int(ri)
            ev["repo"] = pos
            if (os.sep + "c" + os.sep) in path and ".memento.json" not in path:
                ev["dpid"] = int(pid)
            if ".memento.json" in path:
                ev["mpid"] = int(pid)
        st = cluster.storage
        data_path = getattr(st, "config_path", None)
        meta_path = getattr(st, "metadata_config_path", None)
        b["datafiles"] = any((os.sep + "c" + os.sep) in path for _, _, path in new)
        b["metasep"] = ev["mpid"] != 0 and ev["dpid"] != 0 and ev["mpid"] != ev["dpid"] and \
            not any(".memento.json" in path and int(pid) == ev["dpid"] for _, pid, path in new)
        try:
            fn.forget(999)
        except ValueError:
            b["rejects"] = True
        # memory cache: wipe the files, the result must still be served
        if destructive and b["stores"] and data_path and os.path.isdir(data_path):
            for pth in {data_path, meta_path}:
                if pth and os.path.isdir(pth):
                    shutil.rmtree(pth)
            verif_side.log.reset()
            fn(arg)
            b["cached"] = not verif_side.log.take()
        ev["destructive"] = bool(destructive)
    except Exception as e:
        ev["exc"] = "%s: %s" % (type(e).__name__, str(e)[:160])
    return ev


def run_mutations(job, base, layout):
    """the environment is built from some repositories, looked up, and then extended by append_repo /
    prepend_repo, with look-ups after every step"""
    env_spec, plan = job["env"], job["plan"]

    def repo_obj(ri):
        clusters = {}
        for c in env_spec[ri - 1]:
            d = dirs(base, ri, c["name"])
            rt = val(c["args"], "rtype") or val(c["opts"], "rtype")
            runner = RunnerBackend.create(rt, {}) if rt else None
            clusters[c["name"]] = FunctionCluster(name=c.get("own", c["name"]), storage=make_storage(c["opts"], c["args"], d), runner=runner)
        return ConfigurationRepository(name="r%d" % ri, clusters=clusters)

    order = list(plan["init"])
    env = Environment(name="e", base_dir=base, repos=[repo_obj(ri) for ri in order])
    events, rnd = [], 1
    nops = len(plan["ops"])
    for i in range(nops + 1):
        for cname in verif_conf.FNS:
            events.append(probe(env, "mutate", cname, layout, arg=rnd, destructive=False, order=order))
        rnd += 1
        if i < nops:
            where, ri = plan["ops"][i]
            if where == "append":
                env.append_repo(repo_obj(ri))
                order.append(ri)
            else:
                env.prepend_repo(repo_obj(ri))
                order.insert(0, ri)
            events.append({"op": "Repo", "where": where, "repo": env_spec[ri - 1]})
    return events


def run_job(job):
    top = tempfile.mkdtemp(prefix="verif_conf_")
    # (a store root with characters a template engine might escape: a path is a path, whatever form it is given in)
    base = os.path.join(top, "R&D <cache> 100%") if job.get("odd_root", True) else top
    os.makedirs(base, exist_ok=True)
    old = Environment.get()
    try:
        env_spec = job["env"]
        layout = {}
        for ri, repo in enumerate(env_spec, start=1):
            for c in repo:
                d = dirs(base, ri, c["name"])
                layout.setdefault(c["name"], {})[str(ri)] = {str(p): d(p) for p in (1, 2, 3)}
        how = job["how"]
        events = []
        if how == "mutate":
            return {"env": [env_spec[ri - 1] for ri in job["plan"]["init"]], "how": how, "plan": job["plan"],
                    "ev": run_mutations(job, base, layout)}
        if how == "dump":
            e0 = build_env(env_spec, "ctor", base)
            dumped = e0.to_dict()
            env = Environment(json.loads(json.dumps(dumped)))
        else:
            env = build_env(env_spec, how, base)
        for cname in verif_conf.FNS:
            events.append(probe(env, how, cname, layout))
        return {"env": env_spec, "how": how, "ev": events}
    except Exception as e:
        return {"env": job["env"], "how": job["how"], "ev": [{"op": "Probe", "cluster": "ka", "how": job["how"], "found": True, "repo": 0, "dpid": 0, "mpid": 0,
                "b": {"runs": False, "stores": False, "datafiles": False, "metasep": False, "cached": False, "rejects": False},
                "exc": "build: %s: %s" % (type(e).__name__, str(e)[:200])}]}
    finally:
        Environment.set(old)
        shutil.rmtree(top, ignore_errors=True)


def main():
    with open(sys.argv[1]) as f:
        doc = json.load(f)
    res = {"traces": [run_job(j) for j in doc["jobs"]]}
    with open(sys.argv[2], "w") as f:
        json.dump(res, f)


if __name__ == "__main__":
    main()
