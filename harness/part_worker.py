"""C17 worker.  job: {"chain": [...], "cfg": {"backend", "budget"}, "steps": [["call", level] | ["reopen"]]}
Every call's returned partition is probed: list_keys(), list_keys(False), get(k) for every key."""
import gc
import json
import os
import shutil
import sys
import tempfile

import twosigma.memento as m
from twosigma.memento.configuration import ConfigurationRepository, Environment, FunctionCluster
from twosigma.memento.storage_filesystem import FilesystemStorageBackend
from twosigma.memento.storage_memory import MemoryStorageBackend

import verif_part
import verif_side

NAME2ID = {v: k for k, v in verif_part.KEYNAMES.items()}


def open_backend(cfg, base):
    if cfg["backend"] == "memory":
        return MemoryStorageBackend()
    mb = (cfg["budget"] / 1048576.0) if cfg.get("budget") else None
    return FilesystemStorageBackend(path=os.path.join(base, "data"), memory_cache_mb=mb)


def set_env(storage, base):
    Environment.set(Environment(name="verif", base_dir=base, repos=[ConfigurationRepository(
        name="r", clusters={"vp": FunctionCluster(name="vp", storage=storage)})]))


def probe(obj):
    keys = [NAME2ID.get(k, 0) for k in obj.list_keys()]
    own = [NAME2ID.get(k, 0) for k in obj.list_keys(_include_merge_parent=False)]
    vals = []
    for k in obj.list_keys():
        vals.append(verif_part.untag(obj.get(k), NAME2ID.get(k, 0)))
    return keys, own, vals


def run_job(job):
    base = tempfile.mkdtemp(prefix="verif_part_")
    old = Environment.get()
    try:
        verif_part.CHAIN[:] = job["chain"]
        storage = open_backend(job["cfg"], base)
        set_env(storage, base)
        events = []
        called = set()
        fresh = False
        keep = []
        for st in job["steps"]:
            if st[0] == "reopen":
                if job["cfg"]["backend"] != "memory":
                    keep.clear()
                    gc.collect()
                    storage = open_backend(job["cfg"], base)
                    set_env(storage, base)
                    fresh = True
                continue
            level = st[1]
            verif_side.log.reset()
            ev = {"op": "Probe", "level": level, "exc": "", "keys": [], "own": [], "vals": [],
                  "how": "fresh" if fresh else ("second" if level in called else "first")}
            try:
                obj = verif_part.LEVELS[level]()
                keep.append(obj)
                ev["keys"], ev["own"], ev["vals"] = probe(obj)
                ev["cls"] = type(obj).__name__
            except Exception as e:
                ev["exc"] = "%s: %s" % (type(e).__name__, str(e)[:160])
            ev["ran"] = [it[2] for it in verif_side.log.take() if it[0] == "Body"]
            called.add(level)
            events.append(ev)
        return {"cfg": job["cfg"], "chain": job["chain"], "steps": job["steps"], "ev": events}
    finally:
        Environment.set(old)
        shutil.rmtree(base, ignore_errors=True)


def main():
    with open(sys.argv[1]) as f:
        doc = json.load(f)
    out = {"traces": [run_job(j) for j in doc["jobs"]]}
    with open(sys.argv[2], "w") as f:
        json.dump(out, f)


if __name__ == "__main__":
    main()
