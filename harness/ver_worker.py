"""Orchestrates one versioning history across interpreter processes (C01/C03/C13/C14/C12b).

job = {"prog": P, "steps": [...], "clusters": [...]}; steps:
  {"do": "proc", "hashseed": "0", "order": [...]}   start a fresh interpreter on the same store, module written from P
  {"do": "set", "node": {...}}                       replace a node of P (edit); delivered by the next proc or deliver
  {"do": "drop", "name": n}                          remove a node of P
  {"do": "deliver", "how": "reexec"|"reload"|"setvar"|"mutate"|"delname", "name": n}
  {"do": "alias", "name": a, "target": t}            rebind module attribute a to the object bound to t
  {"do": "call", "name": n}   {"do": "query", "name": n, "how": ..., "truth": bool}   {"do": "deps", "name": n}
out: {"ev": [...]} (one event per call/query/deps/proc, plus delivery failures)
"""
import json
import os
import shutil
import subprocess
import sys
import tempfile

sys.path.insert(0, os.path.dirname(os.path.abspath(__file__)))
import vprogs  # noqa: E402

CHILD = os.path.join(os.path.dirname(os.path.abspath(__file__)), "ver_child.py")


def run_child(src_dir, store_dir, ops, hashseed, clusters):
    d = tempfile.mkdtemp(prefix="verif_seg_")
    try:
        sp, op = os.path.join(d, "spec.json"), os.path.join(d, "out.json")
        with open(sp, "w") as f:
            json.dump({"src_dir": src_dir, "store_dir": store_dir, "ops": ops, "clusters": clusters}, f)
        env = dict(os.environ)
        env["PYTHONHASHSEED"] = str(hashseed)
        p = subprocess.run([sys.executable, CHILD, sp, op], env=env, capture_output=True, text=True, timeout=600)
        if p.returncode != 0 or not os.path.exists(op):
            return [{"op": "crash", "exc": "child failed: " + p.stderr[-400:]}]
        with open(op) as f:
            return json.load(f)["events"]
    finally:
        shutil.rmtree(d, ignore_errors=True)


def write_module(src_dir, prog, order):
    pk = os.path.join(src_dir, "vzpkg")
    os.makedirs(pk, exist_ok=True)
    with open(os.path.join(pk, "__init__.py"), "w") as f:
        f.write(vprogs.init_source(prog))
    with open(os.path.join(pk, "mod.py"), "w") as f:
        f.write(vprogs.module_source(prog, order=order))


def run_job(job):
    base = tempfile.mkdtemp(prefix="verif_ver_")
    try:
        prog = json.loads(json.dumps(job["prog"]))
        store = os.path.join(base, "store")
        os.makedirs(store)
        events = []
        seg = None          # current segment: {"src", "ops", "meta", "hashseed"}
        nproc = 0

        def flush():
            nonlocal seg
            if seg is None:
                return
            res = run_child(seg["src"], store, seg["ops"], seg["hashseed"], job.get("clusters", []))
            if len(res) != len(seg["ops"]):
                events.append({"op": "crash", "exc": res[0].get("exc", "child output mismatch") if res else "no output", "proc": seg["n"]})
            else:
                for meta, ev in zip(seg["meta"], res):
                    ev.update(meta)
                    ev["proc"] = seg["n"]
                    if ev["op"] in ("call", "query", "deps", "truth", "probe") or ev.get("exc"):
                        events.append(ev)
            seg = None

        for st in job["steps"]:
            do = st["do"]
            if do == "proc":
                flush()
                nproc += 1
                src = os.path.join(base, "src%d" % nproc)
                write_module(src, prog, st.get("order"))
                seg = {"src": src, "ops": [], "meta": [], "hashseed": st.get("hashseed", "0"), "n": nproc}
                events.append({"op": "proc", "n": nproc, "hashseed": str(st.get("hashseed", "0")), "exc": ""})
            elif do == "set":
                for i, n in enumerate(prog["nodes"]):
                    if n["name"] == st["node"]["name"]:
                        prog["nodes"][i] = st["node"]
                        break
                else:
                    prog["nodes"].append(st["node"])
            elif do == "drop":
                prog["nodes"] = [n for n in prog["nodes"] if n["name"] != st["name"]]
            elif do == "deliver":
                n = vprogs.node(prog, st["name"]) if st.get("name") else None
                how = st["how"]
                if how == "unwrap":
                    seg["ops"].append({"op": "exec_def", "name": n["name"], "src": "%s = %s.fn\n" % (n["name"], n["name"])})
                elif how == "reexec":
                    if n["kind"] == "var":
                        seg["ops"].append({"op": "setvar", "name": n["name"], "val": n["val"]})
                    else:
                        # the definition and, as a notebook user would, the cells that bind it to other names
                        src = vprogs.fn_source(n)
                        if n.get("post") == "fn" and n["kind"] == "mem":
                            src += "\n%s = %s.fn\n" % (n["name"], n["name"])
                        overridden = {a[0] for a in prog.get("aliases", [])}
                        forms = {q["form"] for m_ in prog["nodes"] if "refs" in m_ for q in m_["refs"] if q["to"] == n["name"]}
                        if "alias" in forms and ("alias_" + n["name"]) not in overridden:
                            src += "\nalias_%s = %s\n" % (n["name"], n["name"])
                        if "wrapped" in forms:
                            src += "\nwrapped_%s = _deco(%s)\n" % (n["name"], n["name"])
                        if "wrapped2" in forms:
                            src += "\nwrapped2_%s = _deco(_deco(%s))\n" % (n["name"], n["name"])
                        for a in prog.get("aliases", []):
                            if a[1] == n["name"]:
                                src += "\n%s = %s\n" % (a[0], a[1])
                        # the names the new edition itself calls through exist in the program text: the cells binding them
                        for q in n.get("refs", []):
                            if q["form"] == "alias" and ("alias_" + q["to"]) not in overridden:
                                src += "\nalias_%s = %s\n" % (q["to"], q["to"])
                            elif q["form"] == "wrapped":
                                src += "\nwrapped_%s = _deco(%s)\n" % (q["to"], q["to"])
                            elif q["form"] == "wrapped2":
                                src += "\nwrapped2_%s = _deco(_deco(%s))\n" % (q["to"], q["to"])
                        op_ = {"op": "exec_def", "name": n["name"], "src": src}
                        if n.get("where") == "init":
                            op_["module"] = vprogs.PKG
                        seg["ops"].append(op_)
                elif how == "setvar":
                    seg["ops"].append({"op": "setvar", "name": n["name"], "val": n["val"], "tuple": bool(n.get("tuple"))})
                elif how == "mutate":
                    seg["ops"].append({"op": "mutate", "name": n["name"], "val": n["val"]})
                elif how == "delname":
                    seg["ops"].append({"op": "delname", "name": st["name"]})
                elif how == "reload":
                    seg["ops"].append({"op": "reload", "text": vprogs.module_source(prog), "init_text": vprogs.init_source(prog)})
                seg["meta"].append({"step": st})
            elif do == "alias":
                prog.setdefault("aliases", [])
                prog["aliases"] = [a for a in prog["aliases"] if a[0] != st["name"]] + [[st["name"], st["target"]]]
                if seg is not None and not st.get("defer"):
                    seg["ops"].append({"op": "alias", "name": st["name"], "target": st["target"]})
                    seg["meta"].append({"step": st})
            elif do == "call":
                seg["ops"].append({"op": "call", "name": st["name"], "how": st.get("how", "plain"),
                                   "arg": st.get("arg", 1), "fnarg": st.get("fnarg"), "bind": st.get("bind"),
                                   "twin_text": vprogs.module_source(prog, twin=True)})
                seg["meta"].append({"step": st})
            elif do == "query":
                seg["ops"].append({"op": "query", "name": st["name"], "how": st.get("how", "plain")})
                seg["meta"].append({"step": st})
                if st.get("truth"):
                    seg["ops"].append({"op": "truth", "name": st["name"], "how": "plain", "hashseed": str(1 + len(seg["ops"]) % 7),
                                       "text": vprogs.module_source(prog), "init_text": vprogs.init_source(prog)})
                    seg["meta"].append({"step": st})
            elif do == "probe":
                seg["ops"].append({"op": "probe", "name": st["name"], "also": st.get("also", []), "listfirst": bool(st.get("listfirst"))})
                seg["meta"].append({"step": st})
            elif do == "deps":
                seg["ops"].append({"op": "deps", "name": st["name"], "how": st.get("how", "")})
                seg["meta"].append({"step": st})
        flush()
        return {"prog0": job["prog"], "steps": job["steps"], "ev": events, "final": prog}
    finally:
        shutil.rmtree(base, ignore_errors=True)


def main():
    with open(sys.argv[1]) as f:
        doc = json.load(f)
    out = {"traces": [run_job(j) for j in doc["jobs"]]}
    with open(sys.argv[2], "w") as f:
        json.dump(out, f)


if __name__ == "__main__":
    main()
