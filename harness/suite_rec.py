"""The repository's own test suite as a source of executions: runs it with the recording plugin
(harness/pylib/verif_pytest_rec.py, nothing in the repository is edited) and validates what the tests did to
every storage backend against spec/SuiteMon.tla (the dictionary of C05, the read-only clauses of C19).

The suite's assertions stay what they are; here every clause of the monitor is evaluated after every backend
call the tests make (2,000 calls on 170 stores at the pinned commit)."""
import json
import os
import subprocess

from . import common, tlc

KEEP = ("op", "exc", "ro", "muts", "f", "h", "mid", "v", "ovr", "keys", "ret", "limit", "mk", "b", "wd")


def record_suite(wd, timeout=1500):
    out = os.path.join(wd, "suite_rec.json")
    env = common.worker_env({"VERIF_REC_OUT": out})
    cmd = [common.PY, "-m", "pytest", "-q", "-x", "-p", "no:cacheprovider", "-p", "verif_pytest_rec", "tests"]
    cmd.remove("-x")
    p = subprocess.run(cmd, cwd=common.REPO, env=env, capture_output=True, text=True, timeout=timeout)
    if not os.path.exists(out):
        raise common.Machinery("the recording run of the repository's test suite produced nothing (rc=%s):\n%s\n%s"
                               % (p.returncode, p.stdout[-1500:], p.stderr[-1500:]))
    with open(out) as f:
        doc = json.load(f)
    os.unlink(out)
    tail = [ln for ln in p.stdout.strip().split("\n") if " passed" in ln or " failed" in ln or " error" in ln]
    doc["pytest_rc"] = p.returncode
    doc["pytest_summary"] = tail[-1] if tail else ""
    return doc


def store_traces(doc):
    """one trace per store, in the order of the calls; a store stops being validated where a test touched its
    files behind the backend's back (External), and is skipped if the recorder failed on it"""
    kinds = {s["id"]: s for s in doc["stores"]}
    per = {}
    cut, dead = {}, set()
    for e in doc["events"]:
        sid = e.get("store")
        if e["op"] == "RecorderError":
            raise common.Machinery("recorder error in %s: %s" % (e.get("test"), e.get("why")))
        if sid in dead:
            cut[sid] = cut.get(sid, 0) + (0 if e["op"] == "External" else 1)
            continue
        if e["op"] == "External":
            dead.add(sid)
            continue
        per.setdefault(sid, []).append(e)
    traces = []
    for sid, evs in sorted(per.items()):
        k = kinds[sid]
        if k["kind"] == "other":
            continue
        if any(r.startswith(("/proc/", "/sys/")) for r in k.get("roots", [])):
            continue              # a store on a medium nothing can be written to (the suite's deliberately illegal path)
        ev = []
        for e in evs:
            x = {a: e[a] for a in KEEP if a in e}
            x.setdefault("ro", False)
            x.setdefault("muts", 0)
            ev.append(x)
        traces.append({"cfg": {"kind": k["kind"]}, "ev": ev, "store": sid, "cache": k.get("cache", False),
                       "tests": sorted({e["test"] for e in evs})[:6]})
    return traces, sum(cut.values())


def validate_suite(rep, wd, prop):
    """prop C05: every store; prop C19: the stores on which a read-only or null backend was used"""
    doc = record_suite(wd)
    traces, ncut = store_traces(doc)
    if prop == "C19":
        traces = [t for t in traces if t["cfg"]["kind"] == "null" or any(e["ro"] for e in t["ev"])]
    payload = [{"cfg": t["cfg"], "ev": t["ev"]} for t in traces]
    rej, vr = tlc.validate_traces("TraceSuite", payload, wd, timeout=900)
    rep.add_tlc(vr, "trace validation TraceSuite (the repository's test suite, %s)" % prop)
    rep.cov["suite_stores_validated"] = len(traces)
    rep.cov["suite_backend_calls_validated"] = sum(len(t["ev"]) for t in traces)
    rep.cov["suite_calls_after_external_modification_not_validated"] = ncut
    rep.cov["suite_pytest"] = doc.get("pytest_summary", "")
    rep.cov["suite_read_only_calls"] = sum(1 for t in traces for e in t["ev"] if e["ro"])
    for r in rej:
        t = traces[r["tid"] - 1]
        e = t["ev"][r["prefix"]]
        why = sorted(r["why"]) if isinstance(r["why"], (set, frozenset, list)) else r["why"]
        facts = {"kind": "suite", "backend": t["cfg"]["kind"], "op": e["op"], "ro": e["ro"], "why": why,
                 "tests": t["tests"][:3], "exc": e.get("exc", ""), "cache": t["cache"]}
        rep.violation(facts, {"trace": t, "rejected_at": r["prefix"], "event": e,
                              "how": "cd /repo && TWOSIGMA_MEMENTO_VERIF=1 VERIF_REC_OUT=/tmp/rec.json PYTHONPATH=/verif/harness/pylib "
                                     "/venv/bin/python -m pytest -q -p no:cacheprovider -p verif_pytest_rec " + " ".join(
                                         x.split("::teardown")[0] for x in t["tests"][:3])})
    return len(rej)
