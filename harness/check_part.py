"""C17: partitions round-trip key by key and merge as an overlay of their parents."""
import itertools
import json

from . import common, tlc
from .common import Report, Scratch, rng

SUBSETS = [[], [1], [2], [3], [1, 2], [1, 3], [2, 3], [1, 2, 3]]
CFGS = [{"backend": "fs", "budget": 0}, {"backend": "fs", "budget": 1048576}, {"backend": "memory", "budget": 0}]


def step_plans(n):
    """Ways to build and read a chain of n levels (parent provenance: fresh / disk / cache)."""
    bottom_up = [["call", i] for i in range(1, n + 1)]
    plans = [
        [["call", n], ["call", n], ["reopen"], ["call", n]],                                  # parents computed in the same run
        bottom_up + [["call", n], ["reopen"], ["call", n]],                                    # parents found in store/cache
        list(itertools.chain.from_iterable([[["call", i], ["reopen"]] for i in range(1, n + 1)])) + [["call", n]],  # parents from disk
        [["call", max(1, n - 1)], ["reopen"], ["call", n], ["call", n], ["reopen"], ["call", n], ["call", max(1, n - 1)]],
    ]
    return plans


def run(prop, tier):
    rep = Report(prop, tier)
    quick = tier == "quick"
    r = rng(prop)
    with Scratch(prop) as wd:
        mc = tlc.model_check("Partition", "Partition.cfg", wd, timeout=900)
        rep.add_tlc(mc, "exhaustive: overlay laws on the reference definition (all chains over 3 keys, length <= 3, both staging kinds)")
        jobs = []
        chains = []
        for n in (1, 2, 3):
            combos = list(itertools.product(SUBSETS, repeat=n))
            if quick and n == 3:
                combos = r.sample(combos, 60)
            elif quick and n == 2:
                combos = r.sample(combos, 40)
            for owns in combos:
                for kinds in ([("mem",) * n, ("disk",) * n] if quick else list(itertools.product(("mem", "disk"), repeat=n))):
                    chains.append([{"own": list(o), "kind": k, "nul": [x for x in o if r.random() < 0.3]} for o, k in zip(owns, kinds)])
        if not quick:
            for _ in range(300):   # longer chains, 4 keys
                n = 4
                chains.append([{"own": sorted(r.sample([1, 2, 3, 4], r.randint(0, 4))), "kind": r.choice(["mem", "disk"])} for _ in range(n)])
                for lv in chains[-1]:
                    lv["nul"] = [x for x in lv["own"] if r.random() < 0.3]
        # trees: several partitions merge onto the same parent object (siblings), read in different orders
        trees = []
        for _ in range(12 if quick else 200):
            kinds = [r.choice(["mem", "disk"]) for _ in range(4)]
            lv = [{"own": sorted(r.sample([1, 2, 3], r.randint(0, 3))), "kind": kinds[i]} for i in range(4)]
            for x in lv:
                x["nul"] = [k for k in x["own"] if r.random() < 0.2]
            shape = r.choice([[0, 1, 1], [0, 1, 1, 3], [0, 1, 1, 1], [0, 1, 2, 1]])
            tree = [dict(lv[i], par=shape[i]) for i in range(len(shape))]
            n = len(tree)
            order = list(range(2, n + 1))
            r.shuffle(order)
            plan = [["call", x] for x in order] + [["call", 1]] + [["call", x] for x in order] + [["reopen"]] + \
                   [["call", x] for x in reversed(order)] + [["call", 1]]
            plan2 = [["call", 1], ["reopen"]] + [["call", x] for x in order] + [["call", 1]] + [["call", x] for x in order]
            for c in (CFGS if not quick else [CFGS[_ % len(CFGS)]]):
                jobs.append({"chain": tree, "cfg": c, "steps": plan})
                jobs.append({"chain": tree, "cfg": c, "steps": plan2})
        # a function that returns, unchanged, the partition it got from another function (first-call object, cache hit, read back)
        for _ in range(10 if quick else 150):
            n = r.choice([3, 4])
            ch = [{"own": sorted(r.sample([1, 2, 3], r.randint(1, 3))), "kind": r.choice(["mem", "disk"]), "nul": []} for _ in range(n)]
            k = r.randint(2, n)
            ch[k - 1] = {"own": [], "kind": "pass", "nul": []}
            for pi, plan in enumerate(step_plans(n)):
                if quick and (_ + pi) % 2:
                    continue
                jobs.append({"chain": ch, "cfg": CFGS[(_ + pi) % len(CFGS)], "steps": plan})
        for i, ch in enumerate(chains):
            plans = step_plans(len(ch))
            for pi, plan in enumerate(plans):
                if quick and (i + pi) % 2:
                    continue
                cfg = CFGS[(i + pi) % len(CFGS)] if quick else None
                for c in ([cfg] if cfg else CFGS):
                    jobs.append({"chain": ch, "cfg": c, "steps": plan})
        for j in jobs:                                   # some in-memory levels are built over a defaultdict
            for lv in j.get("chain", []):
                if lv.get("kind") == "mem" and r.random() < 0.3:
                    lv["dd"] = True
        traces = common.run_jobs("part_worker.py", jobs, wd, timeout=2400)
        payload = [{"cfg": {"chain": t["chain"]}, "ev": t["ev"]} for t in traces]
        rej, vr = tlc.validate_traces("TraceOverlay", payload, wd, timeout=1500)
        rep.add_tlc(vr, "trace validation TraceOverlay")
        rep.cov["traces_validated_against_impl"] = len(traces)
        rep.cov["evaluations"] = sum(len(t["ev"]) for t in traces)
        rep.cov["distinct_nontrivial"] = len({json.dumps([j["chain"], j["steps"], j["cfg"]]) for j in jobs})
        rep.cov["chains"] = len(chains)
        rep.cov["rule"] = ("merge chains of length 1..3 over 3 keys (all own-key subsets per level; thorough: all staging-kind "
                           "combinations and 4-level chains) x 4 build/read plans (parents computed in the same run, found in "
                           "cache, read back from disk, mixed) x {filesystem, filesystem+cache, memory}; trees in which 2-3 partitions merge onto "
                           "the same parent object, read in different orders; every returned "
                           "partition object is probed key by key")
        rep.sample({"chain": traces[0]["chain"], "steps": traces[0]["steps"], "cfg": traces[0]["cfg"], "events": traces[0]["ev"]})
        for rj in rej:
            t = traces[rj["tid"] - 1]
            e = t["ev"][rj["prefix"]] if rj["prefix"] < len(t["ev"]) else {}
            facts = {"property": prop, "backend": t["cfg"]["backend"], "budget": t["cfg"].get("budget", 0),
                     "kinds": [lv["kind"] for lv in t["chain"]], "level": e.get("level"), "how": e.get("how"),
                     "why": sorted(rj["why"]), "exc": e.get("exc", "")[:120], "nlevels": len(t["chain"])}
            rep.violation(facts, {"job": jobs[rj["tid"] - 1], "events": t["ev"], "failed_clauses": sorted(rj["why"])})
        rep.assumptions += ["values inside partitions are tagged (key, level) strings/lists/dicts, or None (30% of the own keys); value kinds inside partitions are covered by C02"]
    return rep.finish()
