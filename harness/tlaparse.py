"""Parser for TLA+ values as printed by TLC (trace files written by -simulate, PrintT output).

Records  [a |-> 1, b |-> "x"]      -> dict
Tuples   <<1, 2>>                  -> list
Sets     {1, 2}                    -> TlaSet (a frozenset subclass, printed sorted)
Functions (a :> 1 @@ b :> 2)       -> dict
Strings, integers, TRUE/FALSE, model values (returned as str).
"""
import re


class ParseError(Exception):
    pass


_TOKEN = re.compile(
    r"""\s*(?:
      (?P<str>"(?:[^"\\]|\\.)*")
    | (?P<int>-?\d+)
    | (?P<op><<|>>|\|->|:>|@@|\.\.|[\[\]{}(),])
    | (?P<id>[A-Za-z_][A-Za-z0-9_!]*)
    )""",
    re.X,
)


def _tokens(text):
    pos = 0
    out = []
    n = len(text)
    while pos < n:
        m = _TOKEN.match(text, pos)
        if not m:
            if text[pos:].strip() == "":
                break
            raise ParseError("bad token at %r" % text[pos : pos + 30])
        pos = m.end()
        kind = m.lastgroup
        out.append((kind, m.group(kind)))
    return out


def _freeze(v):
    if isinstance(v, dict):
        return tuple(sorted((k, _freeze(x)) for k, x in v.items()))
    if isinstance(v, list):
        return tuple(_freeze(x) for x in v)
    if isinstance(v, (set, frozenset)):
        return frozenset(_freeze(x) for x in v)
    return v


class _P:
    def __init__(self, toks):
        self.t = toks
        self.i = 0

    def peek(self):
        return self.t[self.i] if self.i < len(self.t) else (None, None)

    def next(self):
        tok = self.peek()
        self.i += 1
        return tok

    def expect(self, val):
        k, v = self.next()
        if v != val:
            raise ParseError("expected %r got %r" % (val, v))

    def value(self):
        k, v = self.next()
        if k == "str":
            return bytes(v[1:-1], "utf-8").decode("unicode_escape") if "\\" in v else v[1:-1]
        if k == "int":
            val = int(v)
            if self.peek()[1] == "..":
                self.next()
                hi = self.value()
                return list(range(val, hi + 1))
            return val
        if k == "id":
            if v == "TRUE":
                return True
            if v == "FALSE":
                return False
            return v
        if v == "<<":
            out = []
            if self.peek()[1] == ">>":
                self.next()
                return out
            while True:
                out.append(self.value())
                k2, v2 = self.next()
                if v2 == ">>":
                    return out
                if v2 != ",":
                    raise ParseError("bad tuple sep %r" % v2)
        if v == "{":
            out = []
            if self.peek()[1] == "}":
                self.next()
                return []
            while True:
                out.append(self.value())
                k2, v2 = self.next()
                if v2 == "}":
                    return out  # sets are returned as lists in TLC's (sorted) print order
                if v2 != ",":
                    raise ParseError("bad set sep %r" % v2)
        if v == "[":
            out = {}
            if self.peek()[1] == "]":
                self.next()
                return out
            while True:
                k2, name = self.next()
                if k2 == "str":
                    name = name[1:-1]
                self.expect("|->")
                out[name] = self.value()
                k3, v3 = self.next()
                if v3 == "]":
                    return out
                if v3 != ",":
                    raise ParseError("bad record sep %r" % v3)
        if v == "(":
            out = {}
            while True:
                key = self.value()
                self.expect(":>")
                out[_freeze(key)] = self.value()
                k3, v3 = self.next()
                if v3 == ")":
                    return out
                if v3 != "@@":
                    raise ParseError("bad function sep %r" % v3)
        raise ParseError("unexpected token %r" % v)


def parse_value(text):
    p = _P(_tokens(text))
    v = p.value()
    if p.i != len(p.t):
        raise ParseError("trailing tokens: %r" % (p.t[p.i : p.i + 5],))
    return v


_HDR = re.compile(r"^\\\* <(\w+)(\((.*)\))? line \d+")


def parse_trace_file(path, only=None):
    """Parse one file written by `tlc -simulate file=...`.

    Returns a list of steps [{'action': name, 'params': str|None, 'state': {var: value}}].
    """
    steps = []
    cur = None
    buf = []
    with open(path) as f:
        lines = f.read().split("\n")

    def flush():
        nonlocal buf, cur
        if cur is None:
            return
        text = "\n".join(buf)
        # split on top-level "/\ var = "
        parts = re.split(r"^/\\ (\w+) = ", text, flags=re.M)
        st = {}
        for j in range(1, len(parts), 2):
            if only is None or parts[j] in only:
                st[parts[j]] = parse_value(parts[j + 1])
        cur["state"] = st
        steps.append(cur)
        cur = None
        buf = []

    for ln in lines:
        m = _HDR.match(ln)
        if m:
            flush()
            cur = {"action": m.group(1), "params": m.group(3)}
            buf = []
            continue
        if ln.startswith("STATE_") or ln.startswith("----") or ln.startswith("===="):
            continue
        if cur is not None:
            buf.append(ln)
    flush()
    return steps


def extract_printed(stdout, tag):
    """Find values printed with PrintT(<<"tag", ...>>) in TLC output (bracket matching)."""
    out = []
    pat = re.compile(r'<<\s*"%s"' % re.escape(tag))
    i = 0
    while True:
        mm = pat.search(stdout, i)
        if not mm:
            break
        j = mm.start()
        depth = 0
        k = j
        in_str = False
        while k < len(stdout):
            c = stdout[k]
            if in_str:
                if c == "\\":
                    k += 1
                elif c == '"':
                    in_str = False
            else:
                if c == '"':
                    in_str = True
                elif stdout.startswith("<<", k):
                    depth += 1
                    k += 1
                elif stdout.startswith(">>", k):
                    depth -= 1
                    k += 1
                    if depth == 0:
                        break
            k += 1
        text = stdout[j : k + 1]
        out.append(parse_value(text))
        i = k + 1
    return out
