"""C14 body (called from check_version.run after the Version.tla model check): static dependency
closure exactness and enforcement on generated reference graphs."""
import itertools
import json

from . import common, tlc, vprogs


def reaches(p, src, dst):
    seen, todo = set(), [src]
    while todo:
        n = todo.pop()
        nd = vprogs.node(p, n)
        if n in seen or nd is None or "refs" not in nd:
            continue
        seen.add(n)
        for q in nd["refs"]:
            if q["to"] == dst:
                return True
            todo.append(q["to"])
    return False


def graph_of(p):
    amap = dict((a[0], a[1]) for a in p.get("aliases", []))      # alias names that have been re-bound to another function
    g = []
    for n in p["nodes"]:
        if n["kind"] in ("mem", "plain"):
            g.append({"name": n["name"], "kind": n["kind"],
                      "refs": [(amap.get("alias_" + q["to"], q["to"]) if q.get("form") == "alias" else q["to"])
                               for q in n["refs"] if q["to"][0] not in "vu"],
                      "hidden": list(n.get("hidden", []))})
    return g


def evolving_job(r):
    """the reference graph changes while the process lives: an alias name the functions call through is re-bound to another
    existing memento function (nothing is re-defined); dependencies() must describe the graph as it is now.  In half of the
    programs every callee carries the same explicit version, so that the re-binding leaves every VERSION unchanged."""
    import copy
    from . import check_version
    for _ in range(60):
        p0 = vprogs.random_prog(r, nmem=r.choice([3, 4]), nplain=1, nvar=1, hidden_p=0.0, forms=("alias", "alias", "bare"), acyclic=True)
        if r.random() < 0.5:
            # (a function with an explicit version is not analysed - by design its reference is static - so only functions
            #  that refer to nothing get one: they stay inside the domain of the property)
            for n in p0["nodes"]:
                if n["kind"] == "mem" and n["name"] != "m1" and not [q for q in n["refs"] if q["to"][0] not in "vu"]:
                    n["explicit"] = "1"
                    n["refs"] = []
        p = copy.deepcopy(p0)
        if not check_version.reaches_alias(p, "m1"):
            continue
        mems = [n["name"] for n in p["nodes"] if n["kind"] == "mem"]
        steps = [{"do": "proc", "hashseed": "0"}] + [{"do": "deps", "name": m_} for m_ in mems]
        graphs = []
        ok = True
        for _round in range(r.choice([1, 2])):
            if not check_version.alias_rebind(r, p, steps, False):
                ok = False
                break
            graphs.append(graph_of(p))
            order = list(mems)
            r.shuffle(order)
            steps += [{"do": "deps", "name": m_} for m_ in order]
        if not ok and not graphs:
            continue
        return {"prog": p0, "steps": steps, "graphs": graphs}
    return None


def small_graphs(r, quick):
    """All reference graphs over {m1, x2, x3}: kinds of x2, x3 in {mem, plain}, any edge set (self loops and
    cycles included), form of each edge drawn at random."""
    out = []
    names_by_kind = lambda k2, k3: ["m1", ("m2" if k2 == "mem" else "h2"), ("m3" if k3 == "mem" else "h3")]
    for k2, k3 in itertools.product(("mem", "plain"), repeat=2):
        names = names_by_kind(k2, k3)
        pairs = [(a, b) for a in names for b in names]
        for mask in range(1 << len(pairs)):
            if quick and r.random() > 0.06:
                continue
            nodes = []
            for a in names:
                refs = []
                for i, (x, y) in enumerate(pairs):
                    if x == a and (mask >> i) & 1:
                        form = r.choice(["bare", "attr", "alias", "wrapped", "wrapped2"]) if y.startswith("m") else r.choice(["bare", "attr"])
                        refs.append({"to": y, "form": form})
                nodes.append(vprogs.new_fn(a, "mem" if a.startswith("m") else "plain", refs))
            out.append({"nodes": nodes})
    return out


def run_body(rep, r, wd, quick):
    jobs = []
    progs_ = small_graphs(r, quick)
    for _ in range(40 if quick else 1000):         # larger random graphs with cycles
        progs_.append(vprogs.random_prog(r, nmem=r.choice([3, 4]), nplain=r.choice([1, 2, 3]), nvar=1, hidden_p=0.0,
                                         forms=("bare", "attr", "alias", "wrapped", "wrapped2"), acyclic=False,
                                         twins_p=0.2, deco_p=0.5, init_p=0.5))
    for p in progs_:
        mems = [n["name"] for n in p["nodes"] if n["kind"] == "mem"]
        jobs.append({"prog": p, "steps": [{"do": "proc", "hashseed": "0"}] +
                     [{"do": "deps", "name": m_, "how": r.choice(["", "", "", "via_verbose", "via_verbose", "via_filter"])} for m_ in mems]})
    for _ in range(30 if quick else 300):
        j = evolving_job(r)
        if j:
            jobs.append(j)
    nenf = 40 if quick else 800
    for i in range(nenf):                           # enforcement: acyclic programs with hidden dynamic calls
        p = vprogs.random_prog(r, nmem=r.choice([3, 4]), nplain=r.choice([1, 2]), nvar=1, hidden_p=0.7,
                               forms=("bare", "attr", "alias"), acyclic=True)
        jobs.append({"prog": p, "steps": [{"do": "proc", "hashseed": "0"},
                                          {"do": "call", "name": "m1", "how": ["plain", "clone", "partial", "chain2", "chain3"][i % 5]}]})
    for i in range(12 if quick else 200):          # a function handed over as an argument may be called -- in that invocation only
        p = vprogs.random_prog(r, nmem=r.choice([3, 4]), nplain=1, nvar=1, hidden_p=0.0, forms=("bare", "attr"), acyclic=True)
        m1 = vprogs.node(p, "m1")
        outside = [n["name"] for n in p["nodes"] if n["kind"] == "mem" and n["name"] != "m1" and not reaches(p, "m1", n["name"])]
        if not outside:
            m1["refs"] = [q for q in m1["refs"] if q["to"][0] != "m"]
            for n in p["nodes"]:
                if n["kind"] == "plain":
                    n["refs"] = [q for q in n["refs"] if q["to"][0] != "m"]
            outside = [n["name"] for n in p["nodes"] if n["kind"] == "mem" and n["name"] != "m1" and not reaches(p, "m1", n["name"])]
        t = r.choice(outside)
        m1["fnarg"] = True
        m1["hidden"] = [t]
        how = ["plain", "clone", "partial", "chain2", "chain3"][i % 5]
        steps = [{"do": "proc", "hashseed": "0"}]
        order = r.choice([("arg", "bare"), ("arg", "bare", "arg"), ("bare", "arg", "bare")])
        for j, kind in enumerate(order, start=1):
            steps.append({"do": "call", "name": "m1", "how": how, "arg": j, "fnarg": t if kind == "arg" else None,
                          "bind": "partial" if (kind == "arg" and (i + j) % 3 == 0) else None})
        jobs.append({"prog": p, "steps": steps})
    traces = common.run_jobs("ver_worker.py", jobs, wd, timeout=3000)
    payload = []
    for j, t in zip(jobs, traces):
        evs = []
        # (a re-bound alias changes the graph: the monitor is told where in the history that happened)
        marks, seen, gi = {}, 0, 0
        for st in j["steps"]:
            if st["do"] in ("deps", "call"):
                seen += 1
            elif st["do"] == "alias" and j.get("graphs"):
                marks[seen] = j["graphs"][min(gi, len(j["graphs"]) - 1)]
                gi += 1
        nobs = 0
        for e in t["ev"]:
            if nobs in marks and e["op"] in ("deps", "call"):
                evs.append({"op": "graph", "graph": marks.pop(nobs), "exc": "", "passed": []})
            if e["op"] in ("deps", "call"):
                nobs += 1
            d = {k: v for k, v in e.items() if k in ("op", "name", "exc", "trans", "direct", "edges", "how", "passed")}
            d.setdefault("exc", "")
            d.setdefault("passed", [])
            if d["op"] == "deps":
                for k in ("trans", "direct", "edges"):
                    d.setdefault(k, [])
            evs.append(d)
        payload.append({"cfg": {"graph": graph_of(j["prog"])}, "ev": evs})
    rej, vr = tlc.validate_traces("TraceClosure", payload, wd, timeout=1500)
    rep.add_tlc(vr, "trace validation TraceClosure")
    rep.cov["traces_validated_against_impl"] = len(traces)
    rep.cov["evaluations"] = sum(len(p["ev"]) for p in payload)
    rep.cov["programs"] = len(jobs)
    rep.cov["distinct_nontrivial"] = len({json.dumps(p["cfg"]["graph"]) for p in payload})
    rep.cov["rule"] = ("reference graphs: all (thorough) / a 6% sample (quick) of the 4 x 512 graphs over three nodes {m1, memento|plain, "
                       "memento|plain} with arbitrary edges incl. self loops and cycles, edge forms drawn from {bare, module attribute, "
                       "alias, decorator-wrapped once / twice}; random 4-7 node graphs with cycles (some with two static methods of the same "
                       "bare name); acyclic programs with hidden dynamic calls called plainly and through modifiers for enforcement; call "
                       "sequences in which the hidden callee is handed over as an argument in some invocations and not in others")
    rep.sample({"graph": payload[0]["cfg"]["graph"], "events": payload[0]["ev"]})
    rep.sample({"graph": payload[-1]["cfg"]["graph"], "events": payload[-1]["ev"]})
    for rj in rej:
        evs = payload[rj["tid"] - 1]["ev"]
        e = evs[rj["prefix"]] if rj["prefix"] < len(evs) else {}
        facts = {"property": "C14", "op": e.get("op"), "name": e.get("name"), "how": e.get("how", ""), "why": sorted(rj["why"]),
                 "exc": (e.get("exc") or "")[:100]}
        rep.violation(facts, {"job": jobs[rj["tid"] - 1], "graph": payload[rj["tid"] - 1]["cfg"]["graph"], "events": evs,
                              "failed_clauses": sorted(rj["why"])})
    rep.assumptions += ["the reference graph is the one the generator wrote into the program text"]
    return rep.finish()
