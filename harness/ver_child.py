"""One interpreter process of a versioning history (C01/C03/C13/C14).

argv: <spec.json> <out.json>.  spec = {"src_dir", "store_dir", "ops": [...]}; the package vzpkg with
mod.py has been written to src_dir by the orchestrator.  Ops:
  call(name, twin_text)            memoized call name(1) and the plain twin's result
  query(name, how)                 version of name (how: plain | clone | wrapper | partial)
  deps(name)                       transitive / direct dependency sets and graph edges
  exec_def(name, src)              re-execute one definition in the module namespace (Jupyter pattern)
  setvar(name, val) / mutate(name, val) / delname(name) / alias(name, target)
  reload(text)                     rewrite mod.py and importlib.reload
  truth(name, text, how)           version computed by a fresh interpreter for module text
"""
import importlib
import json
import linecache
import os
import subprocess
import sys
import tempfile

_cell = [0]
WRAPS = {}


def setup_env(store_dir, extra_clusters=()):
    from twosigma.memento.configuration import ConfigurationRepository, Environment, FunctionCluster
    from twosigma.memento.storage_filesystem import FilesystemStorageBackend
    clusters = {"vz": FunctionCluster(name="vz", storage=FilesystemStorageBackend(path=os.path.join(store_dir, "vz")))}
    for c in extra_clusters:
        clusters[c] = FunctionCluster(name=c, storage=FilesystemStorageBackend(path=os.path.join(store_dir, c)))
    Environment.set(Environment(name="verif", base_dir=store_dir, repos=[ConfigurationRepository(name="r", clusters=clusters)]))


def exec_in_module(mod, src):
    _cell[0] += 1
    fname = "<verif-cell-%d-%d>" % (os.getpid(), _cell[0])
    linecache.cache[fname] = (len(src), None, src.splitlines(True), fname)
    code = compile(src, fname, "exec")
    exec(code, mod.__dict__)


def jsonable(x):
    try:
        json.dumps(x)
        return x
    except (TypeError, ValueError):
        return repr(x)


def fresh_truth(text, name, how, hashseed="0", extra=None, init_text=""):
    """Version of `name` as a fresh interpreter computes it for module text `text`."""
    d = tempfile.mkdtemp(prefix="verif_truth_")
    try:
        os.makedirs(os.path.join(d, "src", "vzpkg"))
        with open(os.path.join(d, "src", "vzpkg", "__init__.py"), "w") as f:
            f.write(init_text or "")
        with open(os.path.join(d, "src", "vzpkg", "mod.py"), "w") as f:
            f.write(text)
        spec = {"src_dir": os.path.join(d, "src"), "store_dir": os.path.join(d, "store"),
                "ops": [{"op": "query", "name": name, "how": how}]}
        sp, op = os.path.join(d, "spec.json"), os.path.join(d, "out.json")
        with open(sp, "w") as f:
            json.dump(spec, f)
        env = dict(os.environ)
        env["PYTHONHASHSEED"] = hashseed
        p = subprocess.run([sys.executable, os.path.abspath(__file__), sp, op], env=env, capture_output=True, text=True, timeout=120)
        if p.returncode != 0 or not os.path.exists(op):
            return {"ver": "", "exc": "fresh-process-failed: " + p.stderr[-300:]}
        with open(op) as f:
            ev = json.load(f)["events"][0]
        return {"ver": ev.get("ver", ""), "exc": ev.get("exc", "")}
    finally:
        import shutil
        shutil.rmtree(d, ignore_errors=True)


def main():
    with open(sys.argv[1]) as f:
        spec = json.load(f)
    sys.path.insert(0, spec["src_dir"])
    import twosigma.memento as m
    import verif_side
    setup_env(spec["store_dir"], spec.get("clusters", ()))
    events = []
    mod = None
    import_exc = ""
    try:
        mod = importlib.import_module("vzpkg.mod")
    except Exception as e:
        import_exc = "%s: %s" % (type(e).__name__, str(e)[:200])
    for op in spec["ops"]:
        kind = op["op"]
        ev = {"op": kind, "name": op.get("name", ""), "exc": ""}
        if mod is None:
            ev["exc"] = "import failed: " + import_exc
            events.append(ev)
            continue
        try:
            if kind == "call":
                verif_side.log.reset()
                import types
                tw = types.ModuleType("vzpkg.twin")
                sys.modules["vzpkg.twin"] = tw
                ns = tw.__dict__
                exec(compile(op["twin_text"], "<twin>", "exec"), ns)
                arg = op.get("arg", 1)
                ev["passed"] = [op["fnarg"]] if op.get("fnarg") else []
                try:
                    ev["twin"] = jsonable(ns[op["name"]](arg, fnarg=ns[op["fnarg"]]) if op.get("fnarg") else ns[op["name"]](arg))
                except Exception as e:
                    ev["twin"] = ["twin-raised", type(e).__name__]
                try:
                    target = getattr(mod, op["name"])
                    if op.get("how") == "clone":          # the same call through a modifier
                        target = target.force_local()
                    elif op.get("how") == "partial":
                        target = target.partial()
                    elif op.get("how") == "chain2":       # through two / three chained modifiers
                        target = target.partial().force_local()
                    elif op.get("how") == "chain3":
                        target = target.force_local().partial().monitor_progress()
                    ev["how"] = op.get("how", "plain")
                    if op.get("fnarg") and op.get("bind") == "partial":      # the function is handed over through partial()
                        ev["got"] = jsonable(target.partial(fnarg=getattr(mod, op["fnarg"]))(arg))
                    else:
                        ev["got"] = jsonable(target(arg, fnarg=getattr(mod, op["fnarg"])) if op.get("fnarg") else target(arg))
                except Exception as e:
                    ev["got"] = ["raised", type(e).__name__]
                    ev["exc"] = type(e).__name__
                    ev["msg"] = str(e)[:200]
                ev["ran"] = [it[1] for it in verif_side.log.take() if it[0] == "Body"]
                ev["same"] = ev.get("got") == ev.get("twin")
            elif kind == "query":
                fn = getattr(mod, op["name"])
                how = op.get("how", "plain")
                if how == "clone":
                    fn = fn.force_local()
                elif how == "partial":
                    fn = fn.partial()
                elif how == "wrapper":
                    fn = m.MementoFunction(fn.fn, cluster_name=fn.cluster_name, register_fn=False)
                ev["how"] = how
                ev["ver"] = fn.version()
                ev["qn"] = fn.fn_reference().qualified_name
            elif kind == "wrap":          # an unregistered instance around the function now bound to the name, kept for later queries
                fn = getattr(mod, op["name"])
                WRAPS[op["id"]] = m.MementoFunction(fn.fn, cluster_name=fn.cluster_name, register_fn=False)
            elif kind == "query_obj":
                fn = WRAPS[op["id"]]
                ev["ver"] = fn.version()
                ev["qn"] = fn.fn_reference().qualified_name
            elif kind == "deps":
                fn = getattr(mod, op["name"])
                if op.get("how") == "via_verbose":      # the collapsed graph obtained from a verbose one that has been rendered
                    g0 = fn.dependencies(verbose=True)
                    g0.df()
                    g = g0.with_verbose(False)
                elif op.get("how") == "via_filter":     # ... from a graph with a label filter (labels only: the edges are the same)
                    g0 = fn.dependencies()
                    g0.df()
                    g = g0.with_label_filter(lambda label: label.upper()).with_verbose(False)
                else:
                    g = fn.dependencies()
                ev["trans"] = sorted(x.qualified_name_without_version.split(":")[-1] for x in g.transitive_memento_fn_dependencies())
                ev["direct"] = sorted(x.qualified_name_without_version.split(":")[-1] for x in g.direct_memento_fn_dependencies())
                df = g.df()
                ev["edges"] = sorted([r["src"].split(":")[-1], r["target"].split(":")[-1]] for _, r in df.iterrows())
            elif kind == "probe":
                fn = getattr(mod, op["name"])
                if op.get("listfirst"):          # the listings of the cluster come BEFORE the memento is read in this process
                    ev["functions_first"] = sorted(x.qualified_name for x in m.list_memoized_functions(fn.cluster_name))
                    for other in op.get("also", []) + ["m2"]:
                        if hasattr(mod, other):
                            m.list_memoized_functions(getattr(mod, other).cluster_name)
                mem = fn.memento(1)
                ev["memento"] = mem is not None
                ev["invs"] = []
                if mem is not None:
                    for inv in mem.invocation_metadata.invocations:
                        ref = inv.fn_reference
                        stub_ok = True
                        if ref.external:
                            # the stub standing for a function that is no longer there names exactly what was recorded: its version is
                            # the version part of the recorded name, and references derived from it keep that name
                            try:
                                sf = ref.memento_fn
                                v = sf.version()
                                stub_ok = (sf.fn_reference().qualified_name == ref.qualified_name
                                           and (ref.qualified_name == sf.qualified_name_without_version + ("" if v is None else "#" + v))
                                           and sf.partial().fn_reference().qualified_name == ref.qualified_name)
                            except Exception:
                                stub_ok = False
                        ev["invs"].append([ref.qualified_name, bool(ref.external), stub_ok])
                ev["nlisted"] = len(fn.list_mementos())
                ev["others"] = []
                for other in op.get("also", []):          # listings of the other functions of the program must work too
                    if hasattr(mod, other):
                        ev["others"].append([other, len(getattr(mod, other).list_mementos())])
                ev["functions"] = sorted(x.qualified_name for x in m.list_memoized_functions(fn.cluster_name))
            elif kind == "exec_def":
                if op.get("module"):           # a definition that lives in the package's __init__ module
                    pk = sys.modules[op["module"]]
                    exec_in_module(pk, op["src"])
                    setattr(mod, op["name"], getattr(pk, op["name"]))       # from pkg import name, again
                else:
                    exec_in_module(mod, op["src"])
            elif kind == "setvar":
                setattr(mod, op["name"], tuple(op["val"]) if op.get("tuple") else op["val"])
            elif kind == "mutate":
                cur = getattr(mod, op["name"])
                if isinstance(cur, tuple):         # (a tuple that holds a list: the list is mutated)
                    cur[1][:] = op["val"][1]
                elif isinstance(cur, list):
                    cur[:] = op["val"]
                else:
                    cur.clear()
                    cur.update(op["val"])
            elif kind == "lock":             # cluster.locked = on (versions already calculated are frozen, no new memento functions)
                from twosigma.memento.configuration import Environment
                Environment.get().get_cluster(op.get("cluster", "vz")).locked = bool(op["on"])
            elif kind == "delname":
                delattr(mod, op["name"])
            elif kind == "alias":
                setattr(mod, op["name"], getattr(mod, op["target"]))
            elif kind == "reload":
                with open(os.path.join(spec["src_dir"], "vzpkg", "mod.py"), "w") as f:
                    f.write(op["text"])
                if op.get("init_text") is not None:
                    with open(os.path.join(spec["src_dir"], "vzpkg", "__init__.py"), "w") as f:
                        f.write(op["init_text"])
                linecache.checkcache()
                importlib.invalidate_caches()
                if op.get("init_text"):
                    importlib.reload(sys.modules["vzpkg"])
                mod = importlib.reload(mod)
            elif kind == "truth":
                # (the fresh interpreter runs under another hash seed than this one: a version is a function of the program)
                t = fresh_truth(op["text"], op["name"], op.get("how", "plain"), hashseed=op.get("hashseed", "0"), init_text=op.get("init_text", ""))
                ev["ver"], ev["exc"] = t["ver"], t["exc"]
            else:
                ev["exc"] = "unknown op"
        except Exception as e:
            ev["exc"] = "%s: %s" % (type(e).__name__, str(e)[:200])
        events.append(ev)
    with open(sys.argv[2], "w") as f:
        json.dump({"events": events}, f)


if __name__ == "__main__":
    main()
