"""Runs the registered checks against the seeded changes kept under /verif/seeded/<id>/.

  /venv/bin/python -m harness.seeded [id ...] [--tier quick|thorough]

For each seeded change: apply patch.diff to /repo (git apply), run the quick check of the property it
breaks (and of the properties listed under "also" in meta.json), revert (git checkout -- .), and
record in seeded/<id>/result.json whether a VIOLATION was reported.  /repo must be clean before.
Evidence of these runs goes to a scratch directory, never to /verif/evidence.
"""
import json
import os
import subprocess
import sys
import tempfile
import time

VERIF = os.path.dirname(os.path.dirname(os.path.abspath(__file__)))
REPO = "/repo"


def sh(cmd, **kw):
    return subprocess.run(cmd, shell=True, capture_output=True, text=True, **kw)


def main():
    args = [a for a in sys.argv[1:] if not a.startswith("--")]
    tier = "thorough" if "--tier=thorough" in sys.argv or "thorough" in sys.argv[1:] and "--tier" in sys.argv else "quick"
    base = os.path.join(VERIF, "seeded")
    ids = args or sorted(d for d in os.listdir(base) if os.path.isfile(os.path.join(base, d, "patch.diff")))
    if sh("git -C %s status --porcelain" % REPO).stdout.strip():
        print("refusing: /repo has uncommitted changes")
        sys.exit(2)
    summary = []
    for sid in ids:
        d = os.path.join(base, sid)
        meta = json.load(open(os.path.join(d, "meta.json")))
        props = [meta["property"]] + meta.get("also", [])
        r = sh("git -C %s apply %s" % (REPO, os.path.join(d, "patch.diff")))
        if r.returncode != 0:
            print("%s: patch does not apply: %s" % (sid, r.stderr[:200]))
            summary.append((sid, "patch-failed", {}))
            continue
        res = {}
        try:
            with tempfile.TemporaryDirectory(prefix="verif_seeded_") as evd:
                for p in props:
                    t0 = time.time()
                    env = dict(os.environ, VERIF_EVIDENCE_DIR=evd)
                    c = subprocess.run([os.path.join(VERIF, "check"), p, "--tier", tier], capture_output=True, text=True, env=env, cwd=VERIF)
                    viol = [ln for ln in c.stdout.split("\n") if ln.startswith("VIOLATION")]
                    facts = [ln.strip()[:300] for ln in c.stdout.split("\n") if ln.strip().startswith("facts:")][:3]
                    res[p] = {"rc": c.returncode, "violations": len(viol), "wall_s": round(time.time() - t0, 1), "facts": facts,
                              "tail": c.stdout.strip().split("\n")[-1][:200]}
        finally:
            sh("git -C %s checkout -- ." % REPO)
        detected = any(v["rc"] == 1 and v["violations"] > 0 for v in res.values())
        json.dump({"id": sid, "tier": tier, "detected": detected, "checks": res}, open(os.path.join(d, "result.json"), "w"), indent=1)
        summary.append((sid, "DETECTED" if detected else "missed", {p: (v["rc"], v["violations"]) for p, v in res.items()}))
        print("%s: %s %s" % summary[-1])
    if sh("git -C %s status --porcelain" % REPO).stdout.strip():
        print("WARNING: /repo not clean after run")


if __name__ == "__main__":
    main()
