"""Intake and evaluation of seeded changes written by independent sub-agents.

  /venv/bin/python -m harness.seedtool intake <out_dir> <worktree> <id> <property> [--also Cxx,...]
      confirm in the scratch worktree that (1) the patch applies, (2) the repository's test suite passes
      with it, (3) the demonstration exits 1 with it and 0 without it; then copy patch.diff, demo.py,
      notes.md to /verif/seeded/<id>/ and write meta.json (what was run, with results).
  /venv/bin/python -m harness.seedtool eval <id> <worktree> [--tier quick|thorough] [--props Cxx,...]
      apply the patch in the scratch worktree and run the registered checks with VERIF_REPO=<worktree>
      (the harness reads the code under test from there), revert, write seeded/<id>/result.json.
      This is the development loop; `python -m harness.seeded` does the same against /repo itself.
"""
import json
import os
import shutil
import subprocess
import sys
import tempfile
import time

VERIF = os.path.dirname(os.path.dirname(os.path.abspath(__file__)))
PY = "/venv/bin/python"


def sh(cmd, cwd=None, env=None, timeout=1800):
    return subprocess.run(cmd, shell=True, capture_output=True, text=True, cwd=cwd, env=env, timeout=timeout)


def wt_env(wt):
    e = dict(os.environ)
    e["PYTHONPATH"] = wt
    e["PYTHONDONTWRITEBYTECODE"] = "1"
    return e


def clean(wt):
    sh("git -C %s checkout -- . && git -C %s clean -fdq" % (wt, wt))


def intake(out, wt, sid, prop, also):
    patch = os.path.join(out, "patch.diff")
    demo = os.path.join(out, "demo.py")
    ran = {}
    clean(wt)
    if sh("git -C %s status --porcelain" % wt).stdout.strip():
        print("worktree not clean"); return 2
    r = sh("%s %s" % (PY, demo), cwd=wt, env=wt_env(wt), timeout=600)
    ran["demo_without_patch_rc"] = r.returncode
    r = sh("git -C %s apply %s" % (wt, patch))
    if r.returncode != 0:
        print("patch does not apply:", r.stderr); return 2
    try:
        diffstat = sh("git -C %s diff --stat" % wt).stdout.strip().split("\n")[-1].strip()
        r = sh("%s -m pytest -q -p no:cacheprovider --timeout=900 2>&1 | tail -8" % PY, cwd=wt, env=wt_env(wt))
        ran["tests_with_patch"] = " ".join(ln.strip("= ") for ln in r.stdout.strip().split("\n") if " passed" in ln or " failed" in ln or " error" in ln)
        r = sh("%s %s" % (PY, demo), cwd=wt, env=wt_env(wt), timeout=600)
        ran["demo_with_patch_rc"] = r.returncode
        ran["demo_with_patch_tail"] = r.stdout.strip().split("\n")[-3:]
    finally:
        clean(wt)
    ok = ran["demo_without_patch_rc"] == 0 and ran["demo_with_patch_rc"] == 1 and " passed" in ran["tests_with_patch"] \
        and "failed" not in ran["tests_with_patch"] and "error" not in ran["tests_with_patch"]
    print(json.dumps(ran, indent=1))
    if not ok:
        print("NOT CONFIRMED"); return 1
    d = os.path.join(VERIF, "seeded", sid)
    os.makedirs(d, exist_ok=True)
    shutil.copy(patch, os.path.join(d, "patch.diff"))
    shutil.copy(demo, os.path.join(d, "demo.py"))
    notes = ""
    if os.path.exists(os.path.join(out, "notes.md")):
        shutil.copy(os.path.join(out, "notes.md"), os.path.join(d, "notes.md"))
        notes = open(os.path.join(out, "notes.md")).read()
    meta = {"id": sid, "property": prop, "also": also, "source": "independent sub-agent given only the property text and a scratch worktree",
            "diffstat": diffstat, "needs_to_manifest": "see notes.md", "confirmed": ran,
            "confirmed_how": "scratch worktree of /repo HEAD: git apply; pytest (319 tests) passes; demo.py exits 1 with the patch and 0 without"}
    json.dump(meta, open(os.path.join(d, "meta.json"), "w"), indent=1)
    print("CONFIRMED -> %s" % d)
    return 0


def evaluate(sid, wt, tier, props):
    d = os.path.join(VERIF, "seeded", sid)
    meta = json.load(open(os.path.join(d, "meta.json")))
    props = props or [meta["property"]] + meta.get("also", [])
    clean(wt)
    r = sh("git -C %s apply %s" % (wt, os.path.join(d, "patch.diff")))
    if r.returncode != 0:
        print("patch does not apply:", r.stderr); return 2
    res = {}
    try:
        with tempfile.TemporaryDirectory(prefix="verif_seeded_") as evd:
            for p in props:
                t0 = time.time()
                env = dict(os.environ, VERIF_EVIDENCE_DIR=evd, VERIF_REPO=wt, VERIF_REPLAY_DIR=os.path.join(evd, "replays"))
                c = subprocess.run([os.path.join(VERIF, "check"), p, "--tier", tier], capture_output=True, text=True, env=env, cwd=VERIF)
                lines = c.stdout.split("\n")
                viol = [ln for ln in lines if ln.startswith("VIOLATION")]
                facts = [ln.strip()[:400] for ln in lines if ln.strip().startswith("facts:")][:3]
                res[p] = {"rc": c.returncode, "violations": len(viol), "wall_s": round(time.time() - t0, 1), "facts": facts,
                          "tail": c.stdout.strip().split("\n")[-1][:200]}
                if c.returncode == 2:
                    res[p]["stderr"] = (c.stdout[-1500:] + c.stderr[-1500:])
    finally:
        clean(wt)
    detected = any(v["rc"] == 1 and v["violations"] > 0 for v in res.values())
    out = {"id": sid, "tier": tier, "detected": detected, "checks": res, "via": "VERIF_REPO=<scratch worktree>"}
    prev = {}
    rp = os.path.join(d, "result.json")
    if os.path.exists(rp):
        prev = json.load(open(rp))
        for p, v in prev.get("checks", {}).items():
            out["checks"].setdefault(p, v)
        out["detected"] = any(v["rc"] == 1 and v["violations"] > 0 for v in out["checks"].values())
    json.dump(out, open(rp, "w"), indent=1)
    print("%s: %s %s" % (sid, "DETECTED" if detected else "missed", {p: (v["rc"], v["violations"], v["wall_s"]) for p, v in res.items()}))
    for p, v in res.items():
        for f in v["facts"][:2]:
            print("   ", p, f[:300])
        if v["rc"] == 2:
            print("   MACHINERY", v.get("stderr", "")[-800:])
    return 0


def readme():
    base = os.path.join(VERIF, "seeded")
    rows = []
    for sid in sorted(os.listdir(base)):
        mp = os.path.join(base, sid, "meta.json")
        if not os.path.exists(mp):
            continue
        m = json.load(open(mp))
        res = {}
        rp = os.path.join(base, sid, "result.json")
        if os.path.exists(rp):
            res = json.load(open(rp))
        notes = ""
        np_ = os.path.join(base, sid, "notes.md")
        if os.path.exists(np_):
            for ln in open(np_).read().split("\n"):
                ln = ln.strip(" #*-")
                if len(ln) > 25:
                    notes = ln[:150]
                    break
        caught = [p for p, v in res.get("checks", {}).items() if v.get("rc") == 1 and v.get("violations")]
        missed = [p for p, v in res.get("checks", {}).items() if not (v.get("rc") == 1 and v.get("violations"))]
        status = "not valid on HEAD (neutralised by a later fix)" if m.get("valid_on_head") is False else \
            ("caught by " + ", ".join(sorted(caught)) if caught else "MISSED")
        rows.append((sid, m["property"], m.get("diffstat", ""), status, ", ".join(sorted(missed)), notes))
    out = ["# Seeded changes", "",
           "Each directory holds a change to twosigma/memento written by an independent sub-agent that was given only the text of one",
           "property and a scratch worktree (`patch.diff`), its demonstration (`demo.py`: exit 1 with the change, 0 without), the agent's",
           "`notes.md`, `meta.json` (what was confirmed, how) and `result.json` (which registered checks report a VIOLATION with the change",
           "applied; quick tier). Ids: <property><A|B> first round, <property><C|D> second round. `python -m harness.seeded [ids]` re-runs the",
           "evaluation against /repo itself (git apply, checks, git checkout); `python -m harness.seedtool eval <id> <worktree>` against a scratch",
           "worktree.", "",
           "| id | property | change | result (quick tier) | checks that stay silent | what the change is |", "|---|---|---|---|---|---|"]
    for r_ in rows:
        out.append("| %s | %s | %s | %s | %s | %s |" % tuple(str(x).replace("|", "/") for x in r_))
    n = len(rows)
    ok = sum(1 for r_ in rows if r_[3].startswith("caught"))
    inv = sum(1 for r_ in rows if r_[3].startswith("not valid"))
    out += ["", "%d changes: %d caught, %d no longer break the property on the current HEAD, %d missed." % (n, ok, inv, n - ok - inv), ""]
    with open(os.path.join(base, "README.md"), "w") as f:
        f.write("\n".join(out))
    print(out[-2])


def main():
    a = sys.argv[1:]
    if a[0] == "readme":
        readme()
        return
    if a[0] == "intake":
        also = []
        if "--also" in a:
            also = a[a.index("--also") + 1].split(",")
        sys.exit(intake(a[1], a[2], a[3], a[4], also))
    if a[0] == "eval":
        tier = a[a.index("--tier") + 1] if "--tier" in a else "quick"
        props = a[a.index("--props") + 1].split(",") if "--props" in a else None
        sys.exit(evaluate(a[1], a[2], tier, props))


if __name__ == "__main__":
    main()
