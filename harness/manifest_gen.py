"""Regenerates /verif/MANIFEST.json from the table below (run: /venv/bin/python -m harness.manifest_gen)."""
import json
import os

VERIF = os.path.dirname(os.path.dirname(os.path.abspath(__file__)))

BASELINE = ("cd /repo && /venv/bin/python -m pytest -ra -q -p no:cacheprovider --timeout=900 "
            "--continue-on-collection-errors --junitxml=/tmp/verif_baseline_junit.xml")

TRUST = ("TLC 1.8 + CommunityModules; the Python projection functions of harness/*_worker.py; value equality by "
         "Python digests; bounded TLC constants as listed in the evidence (tlc_runs[].cmd and spec/*.cfg)")

CHECKS = {
    "C05": dict(
        engine="store",
        text=("Store.tla (mechanism spec of cache + metadata tree + versioned object store) is model-checked "
              "exhaustively against the labelled dictionary monitor DictMon (invariant MonOk, DictAbstraction, "
              "CacheCoherent, RefsCoherent); behaviours simulated from it and random histories over prefix-related "
              "names are replayed on FilesystemStorageBackend (+-cache, +-separate metadata path) and "
              "MemoryStorageBackend, and every recorded event is validated by TLC against DictMon (TraceDict). Custom metadata is "
              "modelled and driven in both storage forms (metadata store / next to the result object); the open finding on the "
              "second form is the constant KF_MetaByObject of the spec (counterexample configuration) and a signature in "
              "known_findings.json. The repository's own test suite is a further source of executions: a pytest plugin "
              "(external wrappers, no source hooks) records every outermost backend call the 319 tests make, one trace per store, "
              "and TLC validates them against SuiteMon (dictionary clauses; TraceSuite)."),
        ref="DESIGN.md 5/C05",
        technique="TLA+ mechanism spec refined against a labelled dictionary monitor (TLC) + TLC trace validation of replayed/random real executions"),
    "C06": dict(
        engine="store",
        text=("LruMon (bounded, LRU order, honest accounting, hits served without store reads) is embedded in "
              "Store.tla and checked exhaustively; every replayed/random execution logs the cache projection "
              "(recency list, resident entries, usage) and data-object reads per event and TLC validates the "
              "sequence of projections against LruMon (TraceLru) with sizes computed by the harness."),
        ref="DESIGN.md 5/C06",
        technique="TLA+ LRU monitor checked on the mechanism spec by TLC + TLC trace validation of cache projections of real executions"),
    "C07": dict(
        engine="store",
        text=("CasIntegrity, CasDedup, LinksPointToObjects and the action property ReferencedObjectsImmutable "
              "are checked on Store.tla; real executions log after every step the content-key/hash agreement of the "
              "whole store, versions per content key and what every memento written so far reads through a "
              "cache-less reader; TLC validates against CasMon (TraceCas)."),
        ref="DESIGN.md 5/C07",
        technique="TLA+ invariants/action property on the mechanism spec (TLC) + TLC trace validation of whole-store scans after every step"),
    "C19": dict(
        engine="store",
        text=("Store.tla has a read-only mode (Reopen(TRUE)); action property ReadOnlyWritesNothing and the RoMon "
              "monitor are checked exhaustively; pre-populated real stores are reopened read-only (flag by argument, "
              "by configuration, by argument over a configuration that says read-write; +-cache, +-separate metadata; "
              "metadata writes in both forms) and null storage is driven with random histories; per event "
              "the mutating audit events under the storage paths and the tree digest are logged and TLC validates "
              "against RoMon (TraceRo). The backend calls the repository's own tests make on read-only and null backends are "
              "recorded by a pytest plugin (external wrappers) and validated by TLC against SuiteMon (read-only clauses; TraceSuite)."),
        ref="DESIGN.md 5/C19",
        technique="TLA+ read-only mode + action property (TLC) + TLC trace validation with filesystem audit events"),
}

CHECKS["C09"] = dict(
    engine="threads",
    text=("Threads.tla (PlusCal: batch pre-check outside the per-call mutex, re-check inside it, MemoryCache "
          "put/_evict/_mark_used at statement granularity, cache lock) is model-checked exhaustively for 2 and 3 threads "
          "over all six scenarios (single flight, no internal error, cache consistency, quiescent accounting, "
          "termination under fairness); real threads run on real backends under a deterministic scheduler "
          "(sys.settrace, cooperative locks): all schedules with <=1 preemption at line granularity in runner and cache "
          "code plus park-until-the-other-caller-is-in-its-body schedules (two preemptions placed by what happens; the factory of the "
          "per-call lock table is a decision point) plus random / sampled 2-preemption / 3-thread schedules; each execution is validated by TLC against "
          "the SingleFlight monitor (TraceSingleFlight). A long-body scenario (140 other invocations while the first caller's "
          "invocation is in progress) covers lock-table and cache churn under an open invocation. Mechanism-level binding: executions of the "
          "leaf-call scenarios recorded at the backend calls and the per-call mutex (and the final cache of the real object) are validated as "
          "behaviours of Threads.tla itself (TraceThreads: events are observations of the spec state, spec steps are silent; informational)."),
    ref="DESIGN.md 5/C09",
    technique="PlusCal/TLA+ model of runner+cache interleavings (TLC) + systematic schedule enumeration of real threads validated by a TLC monitor")

CHECKS["C08"] = dict(
    engine="faults",
    text=("FsWrite.tla models the write protocol of a memoizing call (mkdir, open / write / close of the object, pointer "
          "created/truncated, written, closed; data then memento), object files that exist but are incomplete, crashes before "
          "every operation, crashes and I/O errors in the middle of a pointer's bytes (at the write or at the close), I/O errors "
          "that abandon memoize, and the recovery reads of up to 4 later calls of two functions sharing a content key; TLC checks "
          "Recovers / NeverRaises / PointerImpliesObject / NoPoisonedMemento exhaustively (and finds the pinned-commit defect with "
          "FixedReader=FALSE and the raising call of the LinkBeforeClose design variant). On the real code every mutating "
          "filesystem operation of seven scenarios is hit with every fault variant (crashes once in-process and once as a real death "
          "of a forked process by os._exit, follow-up calls in a new process) in two file modes (write-through: faults at "
          "write(); buffered: faults at close()), truncation after 1/2, 3/4, all-but-one byte (single faults exhaustive, double "
          "faults sampled in quick and exhaustive in thorough), the process is 'restarted', follow-up calls and a whole-store "
          "content-key scan are validated by TLC against CrashSafeMon, and the recorded file-system steps of the runs of f / g are "
          "validated against FsWrite.tla itself (TraceFsWrite: mechanism-level trace validation)."),
    ref="DESIGN.md 5/C08", category="fault_enumeration",
    technique="TLA+ crash/recovery model (TLC) + exhaustive fault enumeration on the real filesystem backend validated by a TLC monitor + TLC trace validation of the recorded file-system steps against the mechanism spec")

_RUNNER = ("Runner.tla (explicit-stack interpreter of ProgSem programs: store look-ups, batch pre-check, frames, "
           "propagate_dependencies on value and exception paths, context inheritance/override) is model-checked against the "
           "reference semantics ProgSem.tla through the lock-step monitor RunnerMon (MonOk, ProvenanceExact, StackDiscipline); "
           "random well-founded programs are emitted as real memento modules, random root histories (calls with modifiers and "
           "context, call_batch/map_over_range with lists and one-shot iterables, forget, forget_all, bodies returning values that cannot "
           "be stored; for C02/C10 also root calls made at the same time by 2-3 threads under the deterministic scheduler) run on "
           "filesystem / filesystem+cache / memory backends and "
           "TLC validates every event (outcome, bodies run, full memento projection) against RunnerMon (TraceRunner); ")
CHECKS["C02"] = dict(engine="runner", ref="DESIGN.md 5/C02",
    text=_RUNNER + "clauses: outcome = un-memoized outcome, bodies run exactly for unmemoized calls, store holds exactly the expected "
    "calls, recorded result type. Value domain: every term of a typed result universe (scalars, dates, containers, numpy, pandas, "
    "partitions, exception classes incl. nested ones) x 5 backend/cache configurations (one with a budget every array exceeds, the caller "
    "keeping the value) x 3 modifiers through two operation patterns validated against TransparentMon (result-type classification defined in TLA+).",
    technique="TLA+ runner mechanism spec refined against denotational semantics (TLC) + TLC trace validation of generated programs and typed value universe")
CHECKS["C10"] = dict(engine="runner", ref="DESIGN.md 5/C10",
    text=_RUNNER + "clauses: invocations = direct calls in order with context and argument, resources = handles obtained, dependency set = "
    "transitive closure incl. self, for every memento present after every operation (so for every memoized-before subset reached), "
    "also after concurrent root calls (Par: provenance as after a sequential execution; directed: a root call and the call one of its body "
    "steps makes, at the same time, under several schedules). Inner calls and batches are also made through ignore_result() / force_local(). "
    "Beyond the property (informational): Memento.forget_exceptions_recursively is specified (ProgSem.ExcClosure, Runner.ForgetExc) and "
    "validated on real histories.",
    technique="TLA+ runner mechanism spec with ProvenanceExact invariant (TLC) + TLC trace validation of memento projections of generated programs")
CHECKS["C15"] = dict(engine="runner", ref="DESIGN.md 5/C15",
    text=_RUNNER + "clauses: batch result list (or first raised exception) = element-wise denotations in order, bodies run once per "
    "unmemoized distinct element, store afterwards = store after individual calls; batches through ignore_result() / force_local(); batches "
    "whose elements are cached / on disk only (written through an earlier backend object) / absent, in every order.",
    technique="TLA+ runner mechanism spec incl. bulk pre-check (TLC) + TLC trace validation of batch operations on generated programs")
CHECKS["C16"] = dict(engine="runner", ref="DESIGN.md 5/C16",
    text=_RUNNER + "clauses: keys include the context id (results stored/served separately), recorded context of every nested invocation "
    "= inherited or overriding context, bodies run exactly for unmemoized (function, argument, context) keys; prevented calls: nested "
    "memento calls raise RuntimeError and do not execute (DenPrevent).",
    technique="TLA+ runner mechanism spec with context propagation (TLC) + TLC trace validation of context-carrying call trees")
CHECKS["C17"] = dict(engine="partition", ref="DESIGN.md 5/C17",
    text=("Partition.tla defines Stored(chain, i) as the overlay of own entries over the parent's stored entries and TLC checks the laws "
          "(keys are the union, own wins, parent-only remain, value comes from the nearest level) over all chains of 3 keys and length <= 3 "
          "with None values; merge chains, trees (several partitions on one parent object) and pass-through levels of real "
          "partition-returning memento functions (in-memory and on-disk staging) are built through four plans "
          "(parents computed in the same run / cached / read back from disk / mixed) on three backends; every returned object (first "
          "call, second call, fresh backend) is probed key by key and validated by TLC against OverlayMon."),
    technique="TLA+ reference definition of overlay with laws checked by TLC + TLC trace validation of probed partition objects")

_VER = ("Version.tla models function objects, module bindings (incl. aliases), the four hash-rule kinds resolved at computation "
        "time, did_change per rule kind, the generation counter, the per-name version cache, per-object calculated version and "
        "the (name, version)-keyed store; TLC checks Coherent (C13), Fresh (C01) and Deterministic (C03) over all event sequences "
        "(redefinitions incl. defaults/refs/kind swaps, variable changes, alias rebinding, unregistered instances, queries, calls, "
        "new processes) up to the bound, and exhibits each pinned-commit deviation (KF_DefaultsNotHashed, KF_AdoptCached, "
        "KF_AliasBlind, KF_OneRulePerKey) as a counterexample (re-run in the thorough tier). Generated programs (harness/vprogs.py) are written as real packages and executed by "
        "real interpreter processes sharing one store (program features: helpers in the package __init__, same-named static methods, "
        "factory-made helpers, lambdas, late-filled tables, once / twice wrapped references, decorated plain helpers, references in nine "
        "syntactic contexts); every run contains one directed history per kind of edit besides the random ones; ")
CHECKS["C01"] = dict(engine="version", ref="DESIGN.md 5/C01",
    text=_VER + "edit histories (slots body/const/default/kw-default/nested-code/set/tuple constants, call edges, variables rebinding and "
    "in-place mutation, explicit versions, alias rebinding) delivered cross-process or in-process; every memoized call is compared with the "
    "plain twin of the current program and validated by TLC against VersionMon (equal or UndeclaredDependencyError).",
    technique="TLA+ versioning mechanism spec (TLC) + TLC trace validation of edit histories of generated programs against their un-memoized twin")
CHECKS["C03"] = dict(engine="version", ref="DESIGN.md 5/C03",
    text=_VER + "each program runs in 3-4 interpreters with different PYTHONHASHSEED, permuted definition order and permuted query order; "
    "VersionMon requires identical versions in every process and no body execution after the first process.",
    technique="TLA+ versioning mechanism spec (TLC) + TLC trace validation of multi-process runs under varying hash seeds / orders")
CHECKS["C13"] = dict(engine="version", ref="DESIGN.md 5/C13",
    text=_VER + "in-process histories (re-executed and edited definitions in any order, variable rebinding/mutation, late definition of an "
    "undefined symbol, memento<->plain swaps, clones/partials/unregistered wrappers) with version queries interleaved; each answer is "
    "compared with a fresh interpreter's answer for the resulting program (VersionMon). Spec -> code: behaviours of Version.tla generated by "
    "tlc -simulate (Version_sim.cfg) are performed on real interpreter processes; the versions answered must induce the model's equalities "
    "and calls must be served exactly when the model serves them (informational NONCONFORMANCE lines); the model and the replay include "
    "the cluster lock (versions already calculated are frozen).",
    technique="TLA+ model of generation counter / version cache / did_change (TLC) + TLC trace validation against fresh-interpreter ground truth")
CHECKS["C14"] = dict(engine="version", ref="DESIGN.md 5/C14",
    text=_VER + "ClosureMon defines reachability, direct references and first-memento frontier on the logged reference graph in TLA+; "
    "dependencies() of every memento function of all three-node graphs (kinds, arbitrary edges incl. cycles, four reference forms) and of "
    "random larger graphs is validated; acyclic programs with hidden dynamic calls are called plainly and through one to three chained "
    "modifiers and must raise UndeclaredDependencyError exactly when an executed function calls outside its static closure, a function "
    "handed over as an argument (by call or by partial) being allowed in that invocation only. Graphs that change while the process lives "
    "(an alias re-bound to another memento function, versions unchanged) are queried before and after.",
    technique="TLA+ reachability definitions evaluated by TLC on logged reference graphs (trace validation) + enforcement calls")

CHECKS["C04"] = dict(engine="argkey", ref="DESIGN.md 5/C04",
    text=("ArgKey.tla defines the documented key: effective kwargs (partial kwargs, partial args, positional args, kwargs, context args) "
          "and Canon, the canonical JSON TEXT of the documented encoding with keys ordered by code point; for every generated case TLC "
          "computes that text and checks presentation invariance and injectivity on the definition; the harness applies SHA-256 and "
          "compares with arg_hash of the real call presentation; equivalent presentations must hit one memoized result, type- or "
          "context-different variants must miss, and the body must receive the bound values (ArgKeyMon via TraceArgKey). The same comparison "
          "is made for every call the repository's own test suite keys (recorded by a pytest plugin through external wrappers). Nested calls: a "
          "three-level chain entered at every level under two context dictionaries and none must run the innermost body once per dictionary."),
    technique="TLA+ reference definition of the canonical key text evaluated by TLC per case (+ laws) compared with the implementation's hash; TLC trace validation of hit/miss behaviour")
CHECKS["C11"] = dict(engine="codec", ref="DESIGN.md 5/C11",
    text=("Codec.tla defines Wire(m), the wire document of an abstract memento (fixed field names, typed {type,value} arguments, Z suffix, "
          "key#version content key) and checks on the definition that the typed encoding determines the argument; for every generated "
          "memento TLC emits the expected document; the real memento is encoded as the metadata source does, parsed with a strict JSON "
          "parser, compared structurally with TLC's document, decoded and compared field by field, and its argument hash recomputed; "
          "CodecMon (TraceCodec) decides. The mementos the repository's own test suite encodes (recorded by a pytest plugin through external wrappers) are validated the same way."),
    technique="TLA+ reference definition of the wire document evaluated by TLC per memento, compared with the implementation's output; TLC trace validation of round-trip facts")

CHECKS["C12"] = dict(engine="names", ref="DESIGN.md 5/C12",
    text=("QNameDef.tla defines Build and its intended inverse Parts over character sequences; TLC checks Parts(Build(p)) = p over "
          "token pools with ':', '::', '#', '@', '=', '+', '-', '.', '_'; real functions with adversarial and random explicit versions "
          "in the default and two named clusters are parsed (NamesMon compares with Parts computed by TLC), memoized and found again "
          "by call, memento(), list_mementos() and list_memoized_functions() on filesystem and memory backends; caller/callee "
          "evolutions (callee edited, removed, re-clustered in every direction; default and named clusters; automatic and adversarial "
          "explicit callee versions; a function-valued argument that vanishes) run across two interpreter processes and "
          "must be served, readable, listable, with vanished versions reported as external under the name that was called."),
    technique="TLA+ reference definition of qualified-name grammar (law checked by TLC) + TLC trace validation of parses, look-ups and cross-process evolutions")

CHECKS["C18"] = dict(engine="config", ref="DESIGN.md 5/C18",
    text=("ConfigDef.tla defines Effective (explicit argument over configuration over default), Resolve (first repository in priority "
          "order or nothing) and Behaviour (the observable effect of every option); TLC checks the override / honoured / dump-load / "
          "first-repository laws over the option matrix; random, single-option and option-against-different-argument environments "
          "(clusters possibly registered under a key that is not their name) and live environments extended by append_repo / "
          "prepend_repo after look-ups are realised as constructor arguments, "
          "inline dict, JSON files, YAML template with parameter and Environment(env.to_dict()), every cluster name is probed "
          "behaviourally (executes, stored, in which configured directory result objects and mementos appear, served after files are "
          "wiped, forget rejected, which repository's store received the data) and TLC validates each probe against ConfigMon."),
    technique="TLA+ reference definition of option resolution and its behavioural meaning (laws checked by TLC) + TLC trace validation of behavioural probes")

NOT_YET = {
}


def main():
    props = [json.loads(l) for l in open(os.path.join(VERIF, "properties.jsonl"))]
    checks = []
    na = []
    for p in props:
        pid = p["id"]
        if pid in CHECKS:
            c = CHECKS[pid]
            checks.append({
                "property_id": pid,
                "quick_cmd": "./check %s --tier quick" % pid,
                "thorough_cmd": "./check %s --tier thorough" % pid,
                "evidence_file": "evidence/%s.json" % pid,
                "replay_cmd_template": "./check %s --replay {path}" % pid,
                "engine": c["engine"],
                "level_claimed": {"category": c.get("category", "model_checking"), "text": c["text"], "design_ref": c["ref"]},
                "level_note": c.get("note", TRUST),
                "technique": c["technique"],
            })
        else:
            na.append({"property_id": pid, "reason": NOT_YET.get(
                pid, "check not built yet in this session (specification planned in DESIGN.md section 5); not claimed")})
    man = {
        "version": 1,
        "setup_cmd": "./setup.sh",
        "hooks": {
            "guard": "TWOSIGMA_MEMENTO_VERIF",
            "enable": "no source hooks: instrumentation is external (harness/*_worker.py wrappers, sys.addaudithook, "
                      "sys.settrace) and only active in worker processes started with TWOSIGMA_MEMENTO_VERIF=1",
            "baseline_off_cmd": BASELINE,
            "source_commits": [],
            "add_only": True,
        },
        "engines": [
            {"name": "config", "path": "harness/check_config.py", "serves_properties": ["C18"],
             "kind_free_text": "spec/ConfigDef.tla + Config.tla + ConfigMon, config_worker.py"},
            {"name": "names", "path": "harness/check_names.py", "serves_properties": ["C12"],
             "kind_free_text": "spec/QNameDef.tla + QName.tla + NamesMon, names_worker.py, ver_worker.py evolutions"},
            {"name": "argkey", "path": "harness/check_argkey.py", "serves_properties": ["C04"],
             "kind_free_text": "spec/ArgKey.tla + JsonText.tla + ArgKeyMon, argkey_worker.py"},
            {"name": "codec", "path": "harness/check_codec.py", "serves_properties": ["C11"],
             "kind_free_text": "spec/Codec.tla + CodecMon, codec_worker.py"},
            {"name": "version", "path": "harness/check_version.py", "serves_properties": ["C01", "C03", "C13", "C14"],
             "kind_free_text": "spec/Version.tla + VersionMon/ClosureMon, program generator harness/vprogs.py, multi-process driver ver_worker.py/ver_child.py"},
            {"name": "runner", "path": "harness/check_runner.py", "serves_properties": ["C02", "C10", "C15", "C16"],
             "kind_free_text": "spec/Runner.tla + ProgSem.tla + RunnerMon/TransparentMon, program generator harness/progs.py, runner_worker.py, values_worker.py"},
            {"name": "partition", "path": "harness/check_part.py", "serves_properties": ["C17"],
             "kind_free_text": "spec/Partition.tla + OverlayMon, part_worker.py"},
            {"name": "faults", "path": "harness/check_faults.py", "serves_properties": ["C08"],
             "kind_free_text": "spec/FsWrite.tla + CrashSafeMon, audit-hook/open-proxy fault injector harness/fault_worker.py"},
            {"name": "threads", "path": "harness/check_threads.py", "serves_properties": ["C09"],
             "kind_free_text": "spec/Threads.tla (PlusCal) + SingleFlightMon, deterministic thread scheduler harness/pylib/verif_sched.py"},
            {"name": "store", "path": "harness/check_store.py", "serves_properties": ["C05", "C06", "C07", "C19"],
             "kind_free_text": "spec/Store.tla + DictMon/LruMon/CasMon/RoMon, TLC model checking, simulation replay, trace validation"},
        ],
        "checks": checks,
        "not_applicable": na,
        "notes": "All verdicts come from TLC: either the exhaustive check of a mechanism spec (design) or the "
                 "validation of recorded real executions against a property monitor (code). See DESIGN.md.",
    }
    with open(os.path.join(VERIF, "MANIFEST.json"), "w") as f:
        json.dump(man, f, indent=1)


if __name__ == "__main__":
    main()
