"""C04: the memo key is canonical in the bound argument values."""
import copy
import datetime
import hashlib
import json
import os

from . import common, tlc
from .common import Report, Scratch, rng

SIGS = {"s1": (["a"], [], {}), "s2": (["a", "b"], [], {}), "s3": (["a", "b", "k"], ["k"], {"b", "k"}), "s4": (["x", "y", "z"], [], {"z"})}
TARGET_QN = "va::verif_args:target#7"
TARGET_PARAMS = ["p", "q"]

LEAVES = [
    {"t": "none"}, {"t": "bool", "v": True}, {"t": "bool", "v": False},
    {"t": "int", "v": "0"}, {"t": "int", "v": "1"}, {"t": "int", "v": "-3"}, {"t": "int", "v": str(2 ** 70)},
    {"t": "float", "v": "1.0"}, {"t": "float", "v": "0.1"}, {"t": "float", "v": "-0.0"}, {"t": "float", "v": "1e16"},
    {"t": "float", "v": "1e-07"}, {"t": "float", "v": "inf"}, {"t": "float", "v": "-inf"}, {"t": "float", "v": "nan"},
    {"t": "str", "v": ""}, {"t": "str", "v": "1"}, {"t": "str", "v": "abc"}, {"t": "str", "v": "naïve ☃ \U0001F600"},
    {"t": "str", "v": "quote\" back\\slash \n tab\t"},
    {"t": "date", "v": "2020-02-29"},
    {"t": "datetime", "v": "2020-02-29T00:00:00"}, {"t": "datetime", "v": "2021-03-04T05:06:07.000008"},
    {"t": "datetime", "v": "2021-03-04T05:06:07+00:00"}, {"t": "datetime", "v": "2021-03-04T05:06:07+05:30"},
    {"t": "datetime", "v": "2021-03-04T05:06:07-03:00"},
]
KEYS = ["a", "b", "k1", "k10", "K", "_x", "é", "z\U0001F600", "_mementoTyp", "iso8601"]


FINITE = None


def rand_value(r, depth=2, pool=None):
    pool = pool or LEAVES
    x = r.random()
    if depth == 0 or x < 0.6:
        return copy.deepcopy(r.choice(pool))
    if x < 0.75:
        return {"t": "list", "v": [rand_value(r, depth - 1, pool) for _ in range(r.randint(0, 3))]}
    if x < 0.92:
        ks = r.sample(KEYS, r.randint(0, 3))
        return {"t": "dict", "v": [[k, rand_value(r, depth - 1, pool)] for k in ks]}
    pa = [rand_value(r, 0, pool) for _ in range(r.randint(0, 1))]
    pk = [["q", rand_value(r, 0, pool)]] if r.random() < 0.5 and len(pa) < 2 else []
    return {"t": "fnref", "pargs": pa, "pkw": pk}


def term(s):
    """typed term for ArgKey.tla, with the lexical tokens of the reference JSON writer"""
    t = s["t"]
    if t in ("none",):
        return {"t": "none"}
    if t == "bool":
        return {"t": "bool", "v": bool(s["v"])}
    if t == "int":
        return {"t": "int", "lex": json.dumps(int(s["v"]))}
    if t == "float":
        return {"t": "float", "lex": json.dumps(float(s["v"]))}
    if t == "str":
        return {"t": "str", "esc": json.dumps(s["v"])}
    if t == "date":
        return {"t": "date", "iso": datetime.date.fromisoformat(s["v"]).isoformat()}
    if t == "datetime":
        return {"t": "datetime", "iso": datetime.datetime.fromisoformat(s["v"]).isoformat()}
    if t == "list":
        return {"t": "list", "v": [term(x) for x in s["v"]]}
    if t == "dict":
        return {"t": "dict", "es": [{"k": key(k), "v": term(v)} for k, v in s["v"]]}
    if t == "fnref":
        return {"t": "fnref", "qn": s.get("qn", TARGET_QN), "pargs": [term(x) for x in s.get("pargs", [])],
                "pkw": [{"k": key(k), "v": term(v)} for k, v in s.get("pkw", [])],
                "params": [key(p) for p in s.get("params", TARGET_PARAMS)]}
    raise ValueError(t)


def key(k):
    return {"cp": [ord(c) for c in k], "esc": json.dumps(k)}


def reorder(s, r):
    """same value, different dictionary insertion order (recursively)"""
    s = copy.deepcopy(s)
    if s["t"] == "dict":
        s["v"] = [[k, reorder(v, r)] for k, v in s["v"]]
        r.shuffle(s["v"])
    elif s["t"] == "list":
        s["v"] = [reorder(x, r) for x in s["v"]]
    return s


def retype(s):
    """a value of another type that compares (almost) equal: must be a different call"""
    t = s["t"]
    if t == "bool":
        return {"t": "int", "v": "1" if s["v"] else "0"}, "bool->int"
    if t == "int" and s["v"] in ("0", "1", "-3"):
        return {"t": "float", "v": s["v"] + ".0"}, "int->float"
    if t == "float" and s["v"] == "1.0":
        return {"t": "str", "v": "1.0"}, "float->str"
    if t == "str" and s["v"] == "1":
        return {"t": "int", "v": "1"}, "str->int"
    if t == "date":
        return {"t": "datetime", "v": s["v"] + "T00:00:00"}, "date->datetime"
    if t == "datetime" and "+" not in s["v"] and s["v"].count("-") == 2:
        return {"t": "datetime", "v": s["v"] + "+00:00"}, "naive->aware"
    if t == "datetime":
        return {"t": "datetime", "v": s["v"][:19]}, "aware->naive"
    if t == "none":
        return {"t": "bool", "v": False}, "none->false"
    if t in ("list", "dict", "fnref"):
        # the same container / function reference with ONE element (or bound argument) of another, equal-comparing type
        s2 = copy.deepcopy(s)
        slots = ([("v", i) for i in range(len(s2["v"]))] if t == "list" else
                 [("v", i) for i in range(len(s2["v"]))] if t == "dict" else
                 [("pargs", i) for i in range(len(s2.get("pargs", [])))] + [("pkw", i) for i in range(len(s2.get("pkw", [])))])
        for fld, i in slots:
            cur = s2[fld][i] if (t == "list" or fld == "pargs") else s2[fld][i][1]
            nv, what = retype(cur)
            if nv is not None:
                if t == "list" or fld == "pargs":
                    s2[fld][i] = nv
                else:
                    s2[fld][i][1] = nv
                return s2, "inside-%s:%s" % (t, what)
    return None, ""


def make_group(r, gid):
    sig = r.choice(list(SIGS))
    params, kwonly, optional = SIGS[sig]
    bound = [p for p in params if p not in optional or r.random() < 0.5]
    binding = [[p, rand_value(r)] for p in bound]
    ctx = [["k", rand_value(r, 0)]] if r.random() < 0.25 else []
    pres = []
    bd = dict((k, v) for k, v in binding)
    positional = []
    for p in params:                       # maximal positional prefix
        if p in bd and p not in kwonly:
            positional.append(p)
        else:
            break

    def P(args, kw, pargs=(), pkw=()):
        return {"args": [bd[p] for p in args], "kw": [[p, bd[p]] for p in kw],
                "pargs": [bd[p] for p in pargs], "pkw": [[p, bd[p]] for p in pkw], "ctx": ctx}
    rest = lambda used: [p for p in bound if p not in used]
    pres.append(P([], bound))
    pres.append(P([], list(reversed(bound))))
    pres.append(P(positional, rest(positional)))
    if positional:
        pres.append(P(positional[1:], rest(positional), pargs=positional[:1]))
        pres.append(P([], rest(positional[:1]), pargs=positional[:1]))
    if len(bound) > 1:
        k0 = bound[-1]
        pres.append(P([p for p in positional if p != k0], [p for p in rest(positional) if p != k0], pkw=[k0]))
    if any(v["t"] in ("dict", "list") for _, v in binding):
        q = P([], bound)
        q["kw"] = [[p, reorder(v, r)] for p, v in q["kw"]]
        pres.append(q)
    # the same binding evaluated as a one-element batch (call_batch) -- must share the key with the plain calls
    pres.append(dict(P([], bound), via="batch"))
    if positional:
        pres.append(dict(P([], rest(positional[:1]), pargs=positional[:1]), via="batch"))
    variants = []
    for i, (p, v) in enumerate(binding):
        nv, what = retype(v)
        if nv is not None:
            q = P([], bound)
            q["kw"] = [[pp, (nv if pp == p else vv)] for pp, vv in q["kw"]]
            q["what"] = what
            variants.append(q)
    q = P([], bound)
    q["ctx"] = ctx + [["extra", {"t": "int", "v": "1"}]]
    q["what"] = "context-args"
    variants.append(q)
    if r.random() < 0.5:
        variants[-1] = dict(variants[-1], via="batch")
    g = {"id": gid, "sig": sig, "binding": binding, "ctx": ctx, "presentations": pres, "variants": variants[:3]}
    if gid % 3 == 0:
        # a three-level chain entered at different levels under two context dictionaries and none: the innermost body runs
        # once per context dictionary (the value domain of context arguments is the argument domain)
        a, b = rand_value(r, 1), rand_value(r, 1)
        if json.dumps(canon_spec(a), sort_keys=True) != json.dumps(canon_spec(b), sort_keys=True):
            steps = [{"ctx": c, "at": at} for c in ("A", "B", "none") for at in ("top", "mid", "leaf")]
            r.shuffle(steps)
            g["chain"] = steps[: r.randint(4, 9)]
            g["chain_ctx"] = {"A": a, "B": b}
            g["chain_arg"] = rand_value(r, 1)
    return g


def call_term(sig, p):
    params = SIGS[sig][0]
    return {"params": [key(x) for x in params], "pargs": [term(x) for x in p["pargs"]],
            "pkw": [{"k": key(k), "v": term(v)} for k, v in p["pkw"]],
            "args": [term(x) for x in p["args"]], "kw": [{"k": key(k), "v": term(v)} for k, v in p["kw"]],
            "ctx": [{"k": key(k), "v": term(v)} for k, v in p["ctx"]]}


def norm_key(g):
    """identity of a group for the injectivity law: signature + normalized binding + context"""
    return json.dumps([g["sig"], sorted((k, json.dumps(canon_spec(v), sort_keys=True)) for k, v in g["binding"]),
                       sorted((k, json.dumps(canon_spec(v), sort_keys=True)) for k, v in g["ctx"])])


def canon_spec(s):
    s = copy.deepcopy(s)
    if s["t"] == "dict":
        s["v"] = sorted([[k, canon_spec(v)] for k, v in s["v"]], key=lambda kv: kv[0])
    elif s["t"] == "list":
        s["v"] = [canon_spec(x) for x in s["v"]]
    elif s["t"] == "float":
        s["v"] = repr(float(s["v"]))
    elif s["t"] == "fnref":
        s["pargs"] = [canon_spec(x) for x in s.get("pargs", [])]
        s["pkw"] = sorted([[k, canon_spec(v)] for k, v in s.get("pkw", [])])
    return s


def suite_keys(rep, wd):
    """the argument keys the repository's own tests compute: every FunctionReferenceWithArguments built while the suite
    runs (recorded by the pytest plugin) must carry the SHA-256 of the text ArgKey.tla gives for that call"""
    from . import suite_rec
    doc = suite_rec.record_suite(wd)
    recs = doc.get("args", [])
    bad = [r for r in recs if "recorder_error" in r]
    if bad:
        raise common.Machinery("argument recorder failed: %s" % bad[0]["recorder_error"])
    cases = []
    for i, r_ in enumerate(recs):
        call = {"params": [key(x) for x in r_["params"]], "pargs": [term(x) for x in r_["pargs"]],
                "pkw": [{"k": key(k), "v": term(v)} for k, v in r_["pkw"]],
                "args": [term(x) for x in r_["args"]], "kw": [{"k": key(k), "v": term(v)} for k, v in r_["kw"]],
                "ctx": [{"k": key(k), "v": term(v)} for k, v in r_["ctx"]]}
        # (one group and one signature per case: the laws between cases are about the generated groups, not these)
        cases.append({"id": i + 1, "group": i + 1, "sig": "suite%d" % (i + 1), "call": call})
    if not cases:
        raise common.Machinery("the recording run of the test suite built no argument keys")
    inp, outp = os.path.join(wd, "suite_cases.json"), os.path.join(wd, "suite_texts.ndjson")
    with open(inp, "w") as f:
        json.dump({"cases": cases}, f)
    tr = tlc.run("ArgKey", "ArgKey.cfg", wd, workers=1, env={"TRACE_FILE": inp, "OUT_FILE": outp}, timeout=900, jvm=("-Xss64m",))
    if tr["errors"] or not os.path.exists(outp):
        raise tlc.TlcError("ArgKey.tla failed on the suite's calls:\n" + "\n".join(tr["stdout"].split("\n")[-40:]))
    rep.add_tlc(tr, "ArgKey.tla: canonical key text of every call the repository's test suite keys")
    texts = {}
    with open(outp) as f:
        for line in f:
            if line.strip():
                d = json.loads(line)
                texts[d["id"]] = d["text"]
    nbad = 0
    for c, r_ in zip(cases, recs):
        want = hashlib.sha256(texts[c["id"]].encode("utf-8")).hexdigest()
        if want != r_["hash"]:
            nbad += 1
            facts = {"property": "C04", "kind": "suite", "op": "Key", "why": ["key_is_sha256_of_canonical_text"], "qn": r_["qn"].split("#")[0],
                     "test": r_.get("test", "")}
            rep.violation(facts, {"call": r_, "key_text_from_ArgKey_tla": texts[c["id"]], "expected_hash": want, "hash": r_["hash"]})
    rep.cov["suite_argument_keys_compared"] = len(cases)
    rep.cov["suite_calls_outside_argument_domain"] = doc.get("args_outside_domain", {})
    rep.cov["suite_pytest"] = doc.get("pytest_summary", "")
    return nbad


def run(prop, tier):
    rep = Report(prop, tier)
    quick = tier == "quick"
    r = rng(prop)
    with Scratch(prop) as wd:
        n = 150 if quick else 4000
        groups, seen = [], {}
        while len(groups) < n:
            g = make_group(r, len(groups) + 1)
            nk = norm_key(g)
            if nk in seen:
                continue
            seen[nk] = g["id"]
            groups.append(g)
        cases = []
        for g in groups:
            for p in g["presentations"]:
                p["case"] = len(cases) + 1
                cases.append({"id": p["case"], "group": g["id"], "sig": g["sig"], "call": call_term(g["sig"], p)})
        # 1. TLC: canonical key text for every case + laws on the definition
        inp, outp = os.path.join(wd, "cases.json"), os.path.join(wd, "texts.ndjson")
        with open(inp, "w") as f:
            json.dump({"cases": cases}, f)
        tr = tlc.run("ArgKey", "ArgKey.cfg", wd, workers=1, env={"TRACE_FILE": inp, "OUT_FILE": outp}, timeout=1500, jvm=("-Xss64m",))
        if tr["errors"] or not os.path.exists(outp):
            raise tlc.TlcError("ArgKey.tla failed:\n" + "\n".join(tr["stdout"].split("\n")[-40:]))
        rep.add_tlc(tr, "ArgKey.tla: canonical key text of every case; presentation invariance and injectivity on the definition")
        rep.cov["states"] = max(rep.cov["states"], len(cases))
        rep.cov["transitions"] = max(rep.cov["transitions"], len(cases))
        texts = {}
        with open(outp) as f:
            for line in f:
                line = line.strip()
                if line:
                    d = json.loads(line)
                    texts[d["id"]] = d["text"]
        if len(texts) != len(cases):
            raise tlc.TlcError("ArgKey.tla produced %d texts for %d cases" % (len(texts), len(cases)))
        # 2. the implementation
        res = common.run_jobs("argkey_worker.py", groups, wd, timeout=2400)
        traces = []
        for g, t in zip(groups, res):
            evs = []
            for h in t["hashes"]:
                want = hashlib.sha256(texts[h["case"]].encode("utf-8")).hexdigest()
                evs.append({"op": "Key", "pres": h["case"], "keyok": h["hash"] == want, "exc": h["exc"],
                            "text": texts[h["case"]][:200], "hash": h["hash"]})
            evs += t["ev"]
            traces.append({"cfg": {"sig": g["sig"]}, "ev": evs})
        payload = [{"cfg": t["cfg"], "ev": [{k: v for k, v in e.items() if k in ("op", "pres", "keyok", "n", "recvok", "exc", "what", "ctx", "at")}
                                             for e in t["ev"]]} for t in traces]
        for p_ in payload:
            for e in p_["ev"]:
                e.setdefault("n", 0); e.setdefault("recvok", True); e.setdefault("keyok", True); e.setdefault("what", ""); e.setdefault("ctx", ""); e.setdefault("at", "")
        rej, vr = tlc.validate_traces("TraceArgKey", payload, wd, timeout=1500)
        rep.add_tlc(vr, "trace validation TraceArgKey")
        rep.cov["traces_validated_against_impl"] = len(traces)
        rep.cov["evaluations"] = sum(len(t["ev"]) for t in traces)
        rep.cov["distinct_nontrivial"] = len(groups)
        rep.cov["cases"] = len(cases)
        rep.cov["rule"] = ("groups = signature (4 signatures incl. defaults and keyword-only) x random binding over the argument domain "
                           "(None, bool, int incl. 2^70, floats incl. -0.0/inf/nan/1e16, strings incl. non-ASCII and escapes, dates, "
                           "naive/UTC/offset datetimes, nested lists, string-keyed dicts, function references with partials) x optional "
                           "context args; 3-7 equivalent presentations per group (keyword order, positional prefix, partial args/kwargs, dict "
                           "insertion order) and up to 3 type-/context-different variants; distinct = distinct normalized bindings")
        rep.sample({"group": {k: groups[0][k] for k in ("sig", "binding", "ctx")}, "key_text_from_ArgKey_tla": texts[groups[0]["presentations"][0]["case"]],
                    "events": traces[0]["ev"][:6]})
        for rj in rej:
            t = traces[rj["tid"] - 1]
            g = groups[rj["tid"] - 1]
            e = t["ev"][rj["prefix"]] if rj["prefix"] < len(t["ev"]) else {}
            types = sorted({v["t"] for _, v in g["binding"]} | ({"float:" + v["v"] for _, v in g["binding"] if v["t"] == "float"}))
            facts = {"property": prop, "op": e.get("op"), "why": sorted(rj["why"]), "sig": g["sig"], "what": e.get("what", ""),
                     "exc": (e.get("exc") or "")[:100], "value_types": types}
            rep.violation(facts, {"group": g, "event": e, "failed_clauses": sorted(rj["why"])})
        suite_keys(rep, wd)
        rep.assumptions += ["lexical tokens (number forms, escaped strings, ISO texts) come from Python's json/datetime writers; "
                            "SHA-256 is applied by the harness to the text produced by ArgKey.tla"]
    return rep.finish()
