"""Entry point: ./check <property> [--tier quick|thorough]"""
import argparse
import os
import sys
import traceback

from . import common


def dispatch(prop, tier):
    if prop in ("C05", "C06", "C07", "C19"):
        from . import check_store
        return check_store.run(prop, tier)
    if prop in ("C02", "C10", "C15", "C16"):
        from . import check_runner
        return check_runner.run(prop, tier)
    if prop in ("C01", "C03", "C13", "C14"):
        from . import check_version
        return check_version.run(prop, tier)
    if prop == "C04":
        from . import check_argkey
        return check_argkey.run(prop, tier)
    if prop == "C11":
        from . import check_codec
        return check_codec.run(prop, tier)
    if prop == "C12":
        from . import check_names
        return check_names.run(prop, tier)
    if prop == "C18":
        from . import check_config
        return check_config.run(prop, tier)
    if prop == "C17":
        from . import check_part
        return check_part.run(prop, tier)
    if prop == "C08":
        from . import check_faults
        return check_faults.run(prop, tier)
    if prop == "C09":
        from . import check_threads
        return check_threads.run(prop, tier)
    raise common.Machinery("no check registered for " + prop)


def main():
    ap = argparse.ArgumentParser()
    ap.add_argument("prop")
    ap.add_argument("--tier", default=os.environ.get("VERIF_TIER", "quick"), choices=["quick", "thorough"])
    ap.add_argument("--replay")
    a = ap.parse_args()
    try:
        if a.replay:
            # A replay re-executes, deterministically, the run that produced the violation (same tier, same seed: all generators
            # are seeded) against the current tree and reports whether a violation with the same facts occurs again.
            import json
            with open(a.replay) as f:
                doc = json.load(f)
            os.environ["VERIF_SEED"] = str(doc.get("seed", 0))
            os.environ.setdefault("VERIF_EVIDENCE_DIR", os.path.join(common.VERIF, "replays", "_evidence"))
            a.tier = doc.get("tier", a.tier)
            print("replaying %s: tier=%s seed=%s facts=%s" % (a.replay, a.tier, doc.get("seed", 0), json.dumps(doc.get("facts"))[:300]))
        if a.prop == "selftest":
            from . import selftest
            rc = selftest.run()
        else:
            rc = dispatch(a.prop, a.tier)
    except Exception:
        traceback.print_exc()
        print("MACHINERY-FAILURE property=%s (exit 2; not a verdict about the code)" % a.prop)
        sys.exit(2)
    sys.exit(rc)


if __name__ == "__main__":
    main()
