"""C08: crash / I-O fault at any filesystem operation of a memoizing call.

FsWrite.tla (write protocol + crash / error environment + recovery reads) is model-checked by
TLC; on the real code every mutating operation of every scenario is hit with every fault variant
(exhaustive single faults; double faults in thorough), the store is "restarted" and follow-up
calls are made; every run is validated by TLC against the CrashSafe monitor."""
import json

from . import common, tlc
from .common import Report, Scratch

# scenario = (name, prefix calls (fault-free), faulted call, follow-up calls)
SCENARIOS = [
    ("S1-first-memoize", [], ["f", 1], [["f", 1], ["f", 1], ["g", 1], ["g", 1], ["list", "f"]]),
    ("S2-second-fn-same-bytes", [["f", 1]], ["g", 1], [["g", 1], ["g", 1], ["f", 1], ["list", "g"]]),
    ("S3-override-key-overwrite", [["ovr", 1]], ["ovr", 2], [["ovr", 2], ["ovr", 2], ["ovr", 1], ["ovr", 1], ["list", "ovr"]]),
    ("S4-rememoize-after-forget", [["f", 1], ["forget", ["f", 1]]], ["f", 1], [["f", 1], ["f", 1], ["g", 1], ["g", 1]]),
    ("S5-partition", [], ["part", 1], [["part", 1], ["part", 1], ["f", 1], ["f", 1], ["list", "part"]]),
    ("S6-exception-result", [], ["boom", 1], [["boom", 1], ["boom", 1], ["list", "boom"]]),
    ("S7-nested-child-memoized-inside-parent", [], ["parent", 1], [["parent", 1], ["parent", 1], ["f", 1], ["g", 1], ["f", 1]]),
]
OP_VARIANTS = ["crash", "enospc"]
WRITE_VARIANTS = ["crash", "crash_half", "crash_q3", "crash_most", "enospc", "efbig_half", "efbig_most"]
# buffered files: the data reaches the file system when the file is flushed / closed
CLOSE_VARIANTS = ["crash", "crash_half", "crash_most", "enospc", "efbig_half"]


def run(prop, tier):
    rep = Report(prop, tier, level="fault_enumeration")
    quick = tier == "quick"
    with Scratch(prop) as wd:
        mc = tlc.model_check("MCFsWrite", "FsWrite_small.cfg", wd, timeout=280 if quick else 1800)
        rep.add_tlc(mc, "exhaustive: FsWrite.tla (every crash point / error x follow-up calls) satisfies CrashSafe")
        common.tick("model check done")

        budgets = [0, 4096] if not quick else [0, 4096]
        # 1. fault-free runs: the operation list of the faulted call of every scenario
        probes = []
        for name, pre, fc, post in SCENARIOS:
            for b in budgets:
                for buffered in (False, True):
                    probes.append({"cfg": {"budget": b, "scenario": name, "buffered": buffered}, "want_ops": True,
                                   "calls": pre + [fc] + post, "faults": []})
        base = common.run_jobs("fault_worker.py", probes, wd)
        jobs = []
        oplists = {}
        for pj, pr in zip(probes, base):
            name = pj["cfg"]["scenario"]
            pre = next(s[1] for s in SCENARIOS if s[0] == name)
            ci = len(pre)
            ops = pr["oplists"][ci]
            oplists[name + ("/buffered" if pj["cfg"]["buffered"] else "")] = ops
            for k, desc in enumerate(ops, start=1):
                variants = WRITE_VARIANTS if desc.startswith("write ") else \
                    CLOSE_VARIANTS if desc.startswith(("close_w ", "flush_w ")) else OP_VARIANTS
                for v in variants:
                    jobs.append({"cfg": pj["cfg"], "calls": pj["calls"], "faults": [{"call": ci, "op": k, "variant": v}]})
        single = common.run_jobs("fault_worker.py", jobs, wd, timeout=1800)
        traces = list(base) + list(single)
        common.tick("single faults: %d runs" % len(single))
        # 2. double faults: a second fault in the first follow-up call (sampled in quick, exhaustive in thorough)
        jobs2 = []
        for j, t in zip(jobs, single):
            ci = j["faults"][0]["call"]
            n1 = t["opcounts"][ci + 1] if ci + 1 < len(t["opcounts"]) else 0
            for k2 in range(1, n1 + 1):
                for v2 in (["crash", "enospc"] if not quick else ["crash"]):
                    jobs2.append({"cfg": j["cfg"], "calls": j["calls"],
                                  "faults": [j["faults"][0], {"call": ci + 1, "op": k2, "variant": v2}]})
        if quick:
            jobs2 = jobs2[:: max(1, len(jobs2) // 400)]
        double = common.run_jobs("fault_worker.py", jobs2, wd, timeout=3000)
        traces += list(double)
        common.tick("double faults: %d runs" % len(double))

        payload = [{"cfg": {"budget": t["cfg"].get("budget", 0)}, "ev": t["ev"]} for t in traces]
        rep.cov["fault_free_operation_list_S1_buffered"] = oplists.get("S1-first-memoize/buffered", [])
        rej, vr = tlc.validate_traces("TraceCrashSafe", payload, wd, timeout=1500)
        rep.add_tlc(vr, "trace validation TraceCrashSafe")
        rep.cov["traces_validated_against_impl"] = len(traces)
        rep.cov["evaluations"] = len(traces)
        rep.cov["distinct_nontrivial"] = len({json.dumps(t["job"]["faults"]) + t["cfg"].get("scenario", "") + str(t["cfg"].get("budget")) + str(t["cfg"].get("buffered")) for t in traces})
        rep.cov["exhaustive"] = True
        rep.cov["rule"] = ("per scenario and cache setting: every mutating filesystem operation of the memoizing call "
                           "(mkdir, open-for-write, write, remove...) x every fault variant (crash before, crash mid-write "
                           "empty / half / three quarters / all but the last byte, ENOSPC on open/mkdir/write, EFBIG after "
                           "half / all but the last byte), once with write-through files (a fault hits write()) and once with "
                           "buffered files (the data reaches the file at flush/close, a fault hits close()); then restart + follow-up calls; "
                           "double faults add a second fault at every operation of the first follow-up call")
        rep.cov["operations_per_scenario"] = {k: len(v) for k, v in oplists.items()}
        rep.cov["fault_free_operation_list_S1"] = oplists.get("S1-first-memoize", [])
        rep.sample({"job": single[0]["job"], "events": single[0]["ev"]} if single else "none")
        if double:
            rep.sample({"job": double[-1]["job"], "events": double[-1]["ev"]})
        for rj in rej:
            t = traces[rj["tid"] - 1]
            e = t["ev"][rj["prefix"]] if rj["prefix"] < len(t["ev"]) else {}
            fl = t["job"]["faults"]
            facts = {"property": prop, "scenario": t["cfg"].get("scenario"), "budget": t["cfg"].get("budget", 0),
                     "buffered": bool(t["cfg"].get("buffered")),
                     "why": sorted(rj["why"]), "event": e.get("k", e.get("what")), "exc": e.get("exc", ""),
                     "fault_variants": [f["variant"] for f in fl], "nfaults": len(fl),
                     "fault_ops": [f["op"] for f in fl], "msg": e.get("msg", "")[:100]}
            rep.violation(facts, {"job": t["job"], "cfg": t["cfg"], "events": t["ev"], "failed_clauses": sorted(rj["why"])})
        rep.assumptions += [
            "a crash is simulated in-process by a BaseException raised at the operation, after which all in-memory state "
            "is dropped (new backend objects, mutex table, call stack); durability/reordering below the filesystem API is not modelled",
        ]
    return rep.finish()
