"""C08: crash / I-O fault at any filesystem operation of a memoizing call.

FsWrite.tla (write protocol + crash / error environment + recovery reads) is model-checked by
TLC; on the real code every mutating operation of every scenario is hit with every fault variant
(exhaustive single faults; double faults in thorough), the store is "restarted" and follow-up
calls are made; every run is validated by TLC against the CrashSafe monitor."""
import json

from . import common, tlc
from .common import Report, Scratch

# scenario = (name, prefix calls (fault-free), faulted call, follow-up calls)
SCENARIOS = [
    ("S1-first-memoize", [], ["f", 1], [["f", 1], ["f", 1], ["g", 1], ["g", 1], ["list", "f"]]),
    ("S2-second-fn-same-bytes", [["f", 1]], ["g", 1], [["g", 1], ["g", 1], ["f", 1], ["list", "g"]]),
    ("S3-override-key-overwrite", [["ovr", 1]], ["ovr", 2], [["ovr", 2], ["ovr", 2], ["ovr", 1], ["ovr", 1], ["list", "ovr"]]),
    ("S4-rememoize-after-forget", [["f", 1], ["forget", ["f", 1]]], ["f", 1], [["f", 1], ["f", 1], ["g", 1], ["g", 1]]),
    ("S5-partition", [], ["part", 1], [["part", 1], ["part", 1], ["f", 1], ["f", 1], ["list", "part"]]),
    ("S6-exception-result", [], ["boom", 1], [["boom", 1], ["boom", 1], ["list", "boom"]]),
    ("S7-nested-child-memoized-inside-parent", [], ["parent", 1], [["parent", 1], ["parent", 1], ["f", 1], ["g", 1], ["f", 1]]),
    ("S8-partition-merged-onto-the-object-returned-in-the-same-run", [], ["child", 1],
     [["child", 1], ["child", 1], ["part", 1], ["child", 1], ["list", "child"]]),
]
OP_VARIANTS = ["crash", "enospc"]
WRITE_VARIANTS = ["crash", "crash_half", "crash_q3", "crash_most", "enospc", "efbig_half", "efbig_most"]
# buffered files: the data reaches the file system when the file is flushed / closed
CLOSE_VARIANTS = ["crash", "crash_half", "crash_most", "enospc", "efbig_half"]


MODEL_SCENARIOS = ("S1-first-memoize", "S2-second-fn-same-bytes", "S4-rememoize-after-forget")     # calls of f and g only


def role_of(path):
    """which file of the protocol a path under the store root is: (obj|ptr, c|m) or None"""
    parts = path.split("/")
    if parts[0] == "c":
        if len(parts) == 2 and parts[1].endswith(".link"):
            return "p_c"
        if len(parts) == 4 and parts[1] == ".versions":
            return "o_c"
    if parts[0] == "m":
        if len(parts) == 3 and parts[2].endswith(".memento.json.link"):
            return "p_m"
        if len(parts) == 5 and parts[2] == ".versions" and parts[4].endswith(".memento.json"):
            return "o_m"
    return None


def mech_events(t):
    """the recorded file-system steps of one run as events of TraceFsWrite (mechanism-level trace validation)"""
    evs = []
    ex = {"f": 0, "g": 0}
    for call, ot, ev in zip(t["job"]["calls"], t["optraces"], t["ev"]):
        name, a = call
        if name == "list":
            continue
        if name == "forget":
            evs.append({"k": "forget", "fn": a[0]})
            continue
        evs.append({"k": "begin", "fn": name})
        trace = ot["trace"]
        upto = ot["fired_at"] if ot["fired_at"] is not None else len(trace)

        def code(kind, path):
            if kind == "os.mkdir":
                return "mkdir"
            ro = role_of(path)
            if ro is None:
                return None
            return {"open_w": "o", "write": "w", "close_w": "c", "flush_w": "c"}.get(kind, "?") + ro
        for kind, path in trace[:upto]:
            c = code(kind, path)
            if c:
                evs.append({"k": c})
        if ot["fired_at"] is not None:
            variant = ev.get("variant", "")
            fk = ot["fired_kind"]
            # the path of the operation that was hit is the next entry the fault-free run would have made: take it
            # from the op list of the worker (the fired op is the last entry of oplists)
            hit = t["oplists"][len(evs_calls(evs)) - 1][-1] if t.get("oplists") else ""
            kind_, _, path_ = hit.partition(" ")
            at = code(kind_, path_)
            partial = variant.split("_")[-1] in ("half", "q3", "most") and at in ("wp_c", "cp_c", "wp_m", "cp_m")
            evs.append({"k": "crash" if variant.startswith("crash") else "ioerr", "at": at or "?", "half": bool(partial)})
        for k, n in ev.get("bodies", []):
            fn = k.split("/")[0]
            if fn in ex:
                ex[fn] += n
        evs.append({"k": "end", "fn": name, "exf": ex["f"], "exg": ex["g"], "raised": bool(ev.get("exc"))})
    return evs


def evs_calls(evs):
    return [e for e in evs if e["k"] in ("begin", "forget")]


def run(prop, tier):
    rep = Report(prop, tier, level="fault_enumeration")
    quick = tier == "quick"
    with Scratch(prop) as wd:
        mc = tlc.model_check("MCFsWrite", "FsWrite_small.cfg", wd, timeout=600 if quick else 3600)
        rep.add_tlc(mc, "exhaustive: FsWrite.tla (every crash point / error x follow-up calls) satisfies CrashSafe")
        common.tick("model check done")

        budgets = [0, 4096] if not quick else [0, 4096]
        # 1. fault-free runs: the operation list of the faulted call of every scenario
        probes = []
        for name, pre, fc, post in SCENARIOS:
            for b in budgets:
                for buffered in (False, True):
                    probes.append({"cfg": {"budget": b, "scenario": name, "buffered": buffered}, "want_ops": True, "want_trace": True,
                                   "calls": pre + [fc] + post, "faults": []})
        base = common.run_jobs("fault_worker.py", probes, wd)
        jobs = []
        oplists = {}
        for pj, pr in zip(probes, base):
            name = pj["cfg"]["scenario"]
            pre = next(s[1] for s in SCENARIOS if s[0] == name)
            ci = len(pre)
            ops = pr["oplists"][ci]
            oplists[name + ("/buffered" if pj["cfg"]["buffered"] else "")] = ops
            for k, desc in enumerate(ops, start=1):
                variants = WRITE_VARIANTS if desc.startswith("write ") else \
                    CLOSE_VARIANTS if desc.startswith(("close_w ", "flush_w ")) else OP_VARIANTS
                for v in variants:
                    jobs.append({"cfg": pj["cfg"], "calls": pj["calls"], "faults": [{"call": ci, "op": k, "variant": v}],
                                 "want_trace": name in MODEL_SCENARIOS, "want_ops": name in MODEL_SCENARIOS})
        single = common.run_jobs("fault_worker.py", jobs, wd, timeout=1800)
        traces = list(base) + list(single)
        common.tick("single faults: %d runs" % len(single))
        # 1b. the same crash points with a REAL death of the process: the calls up to the crash run in a process of their own that
        # ends by os._exit at the operation (no finally / except / __exit__ of the library runs, nothing it still buffers reaches
        # the disk), the follow-up calls in a new process on the same directory
        kjobs = [dict(j, cfg=dict(j["cfg"], realkill=True)) for j in jobs if j["faults"][0]["variant"].startswith("crash")]
        if quick:
            kjobs = kjobs[common.seed() % 2::2]
        killed = common.run_jobs("fault_worker.py", kjobs, wd, timeout=1800)
        traces += list(killed)
        rep.cov["real_kill_runs"] = len(killed)
        common.tick("real kills: %d runs" % len(killed))
        # 2. double faults: a second fault in the first follow-up call (sampled in quick, exhaustive in thorough)
        jobs2 = []
        for j, t in zip(jobs, single):
            ci = j["faults"][0]["call"]
            n1 = t["opcounts"][ci + 1] if ci + 1 < len(t["opcounts"]) else 0
            for k2 in range(1, n1 + 1):
                for v2 in (["crash", "enospc"] if not quick else ["crash"]):
                    jobs2.append({"cfg": j["cfg"], "calls": j["calls"], "want_trace": j.get("want_trace"), "want_ops": j.get("want_ops"),
                                  "faults": [j["faults"][0], {"call": ci + 1, "op": k2, "variant": v2}]})
        if quick:
            jobs2 = jobs2[:: max(1, len(jobs2) // 400)]
        double = common.run_jobs("fault_worker.py", jobs2, wd, timeout=3000)
        traces += list(double)
        common.tick("double faults: %d runs" % len(double))

        payload = [{"cfg": {"budget": t["cfg"].get("budget", 0)}, "ev": t["ev"]} for t in traces]
        rep.cov["fault_free_operation_list_S1_buffered"] = oplists.get("S1-first-memoize/buffered", [])
        rej, vr = tlc.validate_traces("TraceCrashSafe", payload, wd, timeout=1500)
        rep.add_tlc(vr, "trace validation TraceCrashSafe")
        # mechanism-level conformance: the recorded file-system steps of the runs of f / g are behaviours of FsWrite.tla
        mech = [t for t in traces if t["cfg"].get("scenario") in MODEL_SCENARIOS and t.get("optraces") and t["cfg"].get("budget", 0) == 0]
        mpayload = [{"cfg": {"x": 0}, "ev": mech_events(t)} for t in mech]
        mrej, mvr = tlc.validate_traces("TraceFsWrite", mpayload, wd, timeout=1500)
        rep.add_tlc(mvr, "mechanism trace validation TraceFsWrite (recorded file-system steps are behaviours of FsWrite.tla)")
        rep.cov["mechanism_traces"] = len(mpayload)
        rep.cov["mechanism_events"] = sum(len(p["ev"]) for p in mpayload)
        rep.cov["nonconformances"] = len(mrej)
        if mrej:
            print("NONCONFORMANCE: %d of %d recorded runs are not behaviours of FsWrite.tla (informational)" % (len(mrej), len(mpayload)))
            for rj in mrej[:3]:
                t = mech[rj["tid"] - 1]
                evs_ = mpayload[rj["tid"] - 1]["ev"]
                print("  scenario=%s buffered=%s faults=%s explained=%d/%d next=%s" % (
                    t["cfg"].get("scenario"), t["cfg"].get("buffered"), t["job"]["faults"], rj["prefix"], len(evs_),
                    json.dumps(evs_[rj["prefix"]:rj["prefix"] + 2])))
            rep.cov["nonconformance_notes"] = [{"scenario": mech[rj["tid"] - 1]["cfg"].get("scenario"), "faults": mech[rj["tid"] - 1]["job"]["faults"],
                                                "explained": rj["prefix"], "next": mpayload[rj["tid"] - 1]["ev"][rj["prefix"]:rj["prefix"] + 2]}
                                               for rj in mrej[:5]]
        rep.cov["traces_validated_against_impl"] = len(traces)
        rep.cov["evaluations"] = len(traces)
        rep.cov["distinct_nontrivial"] = len({json.dumps(t["job"]["faults"]) + t["cfg"].get("scenario", "") + str(t["cfg"].get("budget")) + str(t["cfg"].get("buffered")) for t in traces})
        rep.cov["exhaustive"] = True
        rep.cov["rule"] = ("per scenario and cache setting: every mutating filesystem operation of the memoizing call "
                           "(mkdir, open-for-write, write, remove...) x every fault variant (crash before, crash mid-write "
                           "empty / half / three quarters / all but the last byte, ENOSPC on open/mkdir/write, EFBIG after "
                           "half / all but the last byte), once with write-through files (a fault hits write()) and once with "
                           "buffered files (the data reaches the file at flush/close, a fault hits close()); then restart + follow-up calls; "
                           "double faults add a second fault at every operation of the first follow-up call")
        rep.cov["operations_per_scenario"] = {k: len(v) for k, v in oplists.items()}
        rep.cov["fault_free_operation_list_S1"] = oplists.get("S1-first-memoize", [])
        rep.sample({"job": single[0]["job"], "events": single[0]["ev"]} if single else "none")
        if double:
            rep.sample({"job": double[-1]["job"], "events": double[-1]["ev"]})
        for rj in rej:
            t = traces[rj["tid"] - 1]
            e = t["ev"][rj["prefix"]] if rj["prefix"] < len(t["ev"]) else {}
            fl = t["job"]["faults"]
            facts = {"property": prop, "scenario": t["cfg"].get("scenario"), "budget": t["cfg"].get("budget", 0),
                     "buffered": bool(t["cfg"].get("buffered")),
                     "why": sorted(rj["why"]), "event": e.get("k", e.get("what")), "exc": e.get("exc", ""),
                     "fault_variants": [f["variant"] for f in fl], "nfaults": len(fl),
                     "fault_ops": [f["op"] for f in fl], "msg": e.get("msg", "")[:100]}
            rep.violation(facts, {"job": t["job"], "cfg": t["cfg"], "events": t["ev"], "failed_clauses": sorted(rj["why"])})
        rep.assumptions += [
            "a crash is simulated in-process by a BaseException raised at the operation, after which all in-memory state "
            "is dropped (new backend objects, mutex table, call stack); the crash points are explored a second time with a real "
            "death of the process (os._exit in a forked child at the operation; follow-up calls in a new process); "
            "durability/reordering below the filesystem API is not modelled",
        ]
    return rep.finish()
