"""C01 / C03 / C13 / C14 (and the evolution half of C12): versioning.

Version.tla (mechanism spec of code hash rules, generation counter, per-name version cache and
did_change scan) is model-checked by TLC; generated programs (harness/vprogs.py) are written as
real packages, edit / definition / query histories are executed in real interpreter processes
sharing one store (harness/ver_worker.py, ver_child.py) and validated by TLC against VersionMon /
ClosureMon."""
import copy
import json

from . import common, tlc, vprogs
from .common import Report, Scratch, rng


# ---- history generators ---------------------------------------------------------------------------
def fix_explicit(p):
    """Explicit versions only on memento functions that refer to nothing (an explicit version pins the
    function against changes of the functions and variables it uses, by design); never on the root m1."""
    for n in p["nodes"]:
        if n["kind"] == "mem" and n.get("explicit") is not None:
            if n["name"] == "m1" or n["refs"] or n.get("hidden"):
                n["explicit"] = None


def edit(r, p, kinds=None):
    ed = vprogs.random_edit(r, p, kinds)
    n = vprogs.node(p, ed["name"])
    if n["kind"] == "mem" and n.get("explicit") is not None and ed["edit"] in ("slot", "addref", "delref"):
        n["explicit"] = "e%d" % (int(n["explicit"][1:]) + 1)     # the author bumps the pinned version with the change
    fix_explicit(p)
    return ed, n


def edit_or_revert(r, p, past, kinds=None, p_revert=0.25):
    """An edit, or -- A -> B -> A -- the return of a function to an earlier edition of itself (the text the
    process has already seen once).  `past` maps name -> earlier editions."""
    cands = [(nm, old) for nm, olds in sorted(past.items()) for old in olds
             if vprogs.node(p, nm) is not None and vprogs.node(p, nm)["kind"] == old["kind"] and vprogs.node(p, nm) != old
             and not vprogs.node(p, nm).get("post")]
    if cands and r.random() < p_revert:
        nm, old = r.choice(cands)
        cur = vprogs.node(p, nm)
        past.setdefault(nm, []).append(copy.deepcopy(cur))
        new = copy.deepcopy(old)
        if new.get("explicit") is not None or cur.get("explicit") is not None:
            new["explicit"] = None if cur.get("explicit") is None else "e%d" % (int(cur["explicit"][1:]) + 1)
        p["nodes"][p["nodes"].index(cur)] = new
        fix_explicit(p)
        return {"edit": "revert", "name": nm}, new
    before = {n["name"]: copy.deepcopy(n) for n in p["nodes"]}
    ed, n = edit(r, p, kinds)
    if n["kind"] in ("mem", "plain") and before.get(n["name"]) is not None and before[n["name"]] != n:
        past.setdefault(n["name"], []).append(before[n["name"]])
    return ed, n


def history_c01(r, quick):
    p0 = vprogs.random_prog(r, nmem=r.choice([2, 3, 3, 4]), nplain=r.choice([1, 2]), nvar=2, hidden_p=0.2,
                            init_p=0.25, twins_p=0.25, late_p=0.25, shapes_p=0.5, factory_p=0.25, lambdas_p=0.25)
    if r.random() < 0.3:
        cands = [n for n in p0["nodes"] if n["kind"] == "mem" and n["name"] != "m1"]
        if cands:
            r.choice(cands)["explicit"] = "e0"
    fix_explicit(p0)
    twice = False
    if r.random() < 0.35:          # some functions publish their result under an override key of their own
        for n in p0["nodes"]:
            if n["kind"] == "mem" and not n.get("cls") and not n.get("lam") and not n.get("factory") and r.random() < 0.6:
                n["ovr"] = True
                twice = True
    p = copy.deepcopy(p0)
    mems = [n["name"] for n in p["nodes"] if n["kind"] == "mem"]
    steps = [{"do": "proc", "hashseed": "0"}, {"do": "call", "name": "m1"}]
    past = {}
    for _ in range(r.randint(2, 4)):
        ed, n = edit_or_revert(r, p, past)
        steps.append({"do": "set", "node": copy.deepcopy(n), "why": ed})
        if r.random() < 0.5:
            steps.append({"do": "proc", "hashseed": "0"})                       # cross-process delivery
        else:
            how = "reexec"
            if n["kind"] == "var":
                how = "mutate" if ed["edit"] == "var_mutate" else "setvar"
            elif r.random() < 0.25:
                how = "reload"
            steps.append({"do": "deliver", "how": how, "name": n["name"]})
        if r.random() < 0.2:
            alias_rebind(r, p, steps)
        steps.append({"do": "call", "name": "m1", "how": r.choice(["plain", "plain", "plain", "clone", "partial"])})
        if twice:                  # (what the first call after the edit stored is read back by the second)
            steps.append({"do": "call", "name": "m1", "how": "plain"})
        if r.random() < 0.3 and len(mems) > 1:
            steps.append({"do": "call", "name": r.choice(mems[1:])})
    return {"prog": p0, "steps": steps}


def history_c03(r, quick):
    p0 = vprogs.random_prog(r, nmem=r.choice([2, 3, 4]), nplain=r.choice([1, 2]), nvar=2, hidden_p=0.0,
                            forms=("bare", "bare", "attr", "alias", "wrapped", "wrapped2"), init_p=0.4, twins_p=0.5, late_p=0.5,
                            shapes_p=0.5, factory_p=0.6, lambdas_p=0.6, setdict_p=0.6)
    names = [n["name"] for n in p0["nodes"] if n["kind"] in ("mem", "plain")]
    mems = [n for n in names if n.startswith("m")]
    steps = []
    for i in range(3 if quick else 4):
        order = names[:]
        r.shuffle(order)
        if i % 2:
            # every plain helper defined AFTER the last memento function: what the memento functions reach through a module
            # attribute does not exist yet when they are defined, and no later registration makes anybody look again
            order = [n for n in order if n.startswith("m")] + [n for n in order if not n.startswith("m")]
        steps.append({"do": "proc", "hashseed": str([0, 1, 2, 3, 77, 12345][i % 6] if i else 0), "order": order})
        q = mems[:]
        r.shuffle(q)
        # (in some processes the first use of a function goes through a modifier)
        how = r.choice(["plain", "plain", "clone", "partial"])
        if i % 2:
            steps.append({"do": "call", "name": "m1", "how": how})
        for j, n in enumerate(q):
            steps.append({"do": "query", "name": n, "how": how if (j == 0 and not i % 2) else "plain"})
        if not i % 2:
            steps.append({"do": "call", "name": "m1"})
    return {"prog": p0, "steps": steps}


def history_c13(r, quick):
    p0 = vprogs.random_prog(r, nmem=r.choice([2, 3]), nplain=r.choice([1, 2]), nvar=2, hidden_p=0.0,
                            forms=("bare", "attr", "alias", "alias"), init_p=0.2, twins_p=0.2, late_p=0.2, shapes_p=0.5, factory_p=0.2, lambdas_p=0.2, tuple_p=0.3)
    # a reference to a symbol that does not exist yet
    if r.random() < 0.5:
        r.choice([n for n in p0["nodes"] if n["kind"] in ("mem", "plain")])["refs"].append({"to": "u1", "form": "bare"})
    p = copy.deepcopy(p0)
    mems = [n["name"] for n in p["nodes"] if n["kind"] == "mem"]
    steps = [{"do": "proc", "hashseed": "0"}]
    past = {}
    if r.random() < 0.7:
        steps.append({"do": "query", "name": r.choice(mems), "truth": True})
    for _ in range(r.randint(2, 5)):
        x = r.random()
        if x < 0.55:
            ed, n = edit_or_revert(r, p, past, ["slot", "slot", "var", "var_mutate", "addref", "delref"])
            how = "reexec" if n["kind"] != "var" else ("mutate" if ed["edit"] == "var_mutate" else "setvar")
            steps += [{"do": "set", "node": copy.deepcopy(n), "why": ed}, {"do": "deliver", "how": how, "name": n["name"]}]
        elif x < 0.65 and vprogs.node(p, "u1") is None and any(q["to"] == "u1" for n in p["nodes"] if "refs" in n for q in n["refs"]):
            n = {"name": "u1", "kind": "var", "val": r.choice([1, "s", [1]])}
            steps += [{"do": "set", "node": n, "why": {"edit": "define_undefined"}}, {"do": "deliver", "how": "setvar", "name": "u1"}]
            p["nodes"].append(n)
        elif x < 0.8:
            # swap a function between memento and plain (and back)
            cands = [n for n in p["nodes"] if n["kind"] in ("mem", "plain") and n["name"] != "m1" and not n.get("cls")
                     and n.get("where") != "init" and not n.get("post") and not n.get("factory") and not n.get("lam")]
            if not cands:
                continue
            n = r.choice(cands)
            n["kind"] = "plain" if n["kind"] == "mem" else "mem"
            n["explicit"] = None
            steps += [{"do": "set", "node": copy.deepcopy(n), "why": {"edit": "swap_kind"}},
                      {"do": "deliver", "how": "reexec", "name": n["name"]}]
        elif x < 0.86 and alias_rebind(r, p, steps):
            pass
        elif x < 0.93:
            # the name of a function is bound to a builtin (nothing memento tracks) / back to the unchanged definition;
            # or to the plain function underneath the memento function (name = name.fn)
            cands = [n for n in p["nodes"] if n["kind"] in ("mem", "plain", "builtin") and n["name"] != "m1" and not n.get("cls")
                     and n.get("where") != "init" and not n.get("factory") and not n.get("post")
                     and all(q["form"] in ("bare", "attr") for f in p["nodes"] if "refs" in f for q in f["refs"] if q["to"] == n["name"])]
            if cands:
                n = r.choice(cands)
                if n["kind"] == "builtin":
                    n.update(copy.deepcopy(past[n["name"]][-1]))
                    why = "from_builtin"
                    how = "reexec"
                elif n["kind"] == "mem" and r.random() < 0.5:
                    n["post"] = "fn"
                    why, how = "unwrap", "unwrap"
                elif n["kind"] == "mem":
                    # (only memento functions: a name that holds an untracked object and is later bound to a PLAIN function is
                    # watched by no hash rule at all -- that event is not among those C13 lists, see DESIGN.md limits)
                    past.setdefault(n["name"], []).append(copy.deepcopy(n))
                    n["kind"] = "builtin"
                    why, how = "to_builtin", "reexec"
                else:
                    continue
                steps += [{"do": "set", "node": copy.deepcopy(n), "why": {"edit": why, "name": n["name"]}},
                          {"do": "deliver", "how": how, "name": n["name"]}]
        else:
            # re-execute an unchanged definition (a notebook cell run again)
            n = r.choice([n for n in p["nodes"] if n["kind"] in ("mem", "plain")])
            steps.append({"do": "deliver", "how": "reexec", "name": n["name"]})
        mems = [n["name"] for n in p["nodes"] if n["kind"] == "mem" and not n.get("post")]
        if r.random() < 0.8:
            steps.append({"do": "query", "name": r.choice(mems), "truth": True,
                          "how": r.choice(["plain", "plain", "plain", "clone", "wrapper", "partial"])})
    steps.append({"do": "query", "name": "m1", "truth": True})
    return {"prog": p0, "steps": steps}


def alias_rebind(r, p, steps, collide=False):
    """alias_<x> = <y>: a module attribute that held memento function x is assigned another existing one.
    collide=False avoids, collide=True requires, the situation of the open finding
    C13-two-symbols-one-function: a function that calls through the alias also refers to the old or the new
    target by another name (the two references share one hash rule, so only one of the symbols is watched)."""
    aliased = sorted({q["to"] for n in p["nodes"] if "refs" in n for q in n["refs"] if q["form"] == "alias"})
    mems = [n["name"] for n in p["nodes"] if n["kind"] == "mem" and n["name"] != "m1"]
    if not aliased or len(mems) < 1:
        return False
    amap = dict((a[0], a[1]) for a in p.get("aliases", []))
    x = r.choice(aliased)
    cur = amap.get("alias_" + x, x)
    users = [n for n in p["nodes"] if "refs" in n and any(q["form"] == "alias" and q["to"] == x for q in n["refs"])]

    def other_targets(u):
        out = set()
        for q in u["refs"]:
            if q["form"] == "alias" and q["to"] == x:
                continue
            out.add(amap.get("alias_" + q["to"], q["to"]) if q["form"] == "alias" else q["to"])
        return out | set(u.get("hidden", []))

    def collides(y):
        return any(y in other_targets(u) or cur in other_targets(u) for u in users)

    cands = [y for y in mems if y != cur and not reaches(p, y, "m1") and not any(reaches(p, y, u["name"]) for u in users)
             and collides(y) == bool(collide)]
    if not cands:
        return False
    y = r.choice(cands)
    p.setdefault("aliases", [])
    p["aliases"] = [a for a in p["aliases"] if a[0] != "alias_" + x] + [["alias_" + x, y]]
    steps.append({"do": "alias", "name": "alias_" + x, "target": y, "collision": bool(collide)})
    return True


def reaches(p, src, dst):
    """does src refer (transitively) to dst?  (keeps generated programs free of unbounded recursion)"""
    seen, todo = set(), [src]
    amap = dict((a[0], a[1]) for a in p.get("aliases", []))
    while todo:
        n = todo.pop()
        if n == dst:
            return True
        if n in seen:
            continue
        seen.add(n)
        nd = vprogs.node(p, n)
        if nd and "refs" in nd:
            for q in nd["refs"]:
                t = q["to"]
                if q["form"] == "alias":
                    t = amap.get("alias_" + t, t)
                todo.append(t)
            todo += nd.get("hidden", [])
    return False


def history_alias(r, prop, collide=False):
    """Directed: a dependant's version is queried (cached), then the alias it calls through is rebound to
    another memento function that already exists -- no definition is executed, nothing else changes --
    and the dependant is queried / called again.  (Version.tla: KF_AliasBlind counterexample shape.)"""
    for _ in range(50):
        p0 = vprogs.random_prog(r, nmem=r.choice([3, 4]), nplain=1, nvar=1, hidden_p=0.0, forms=("alias", "alias", "bare"))
        p = copy.deepcopy(p0)
        steps = [{"do": "proc", "hashseed": "0"}]
        steps.append({"do": "call", "name": "m1"} if prop == "C01" else {"do": "query", "name": "m1", "truth": True})
        if r.random() < 0.5:         # warm the other functions' cached versions too
            for n in p["nodes"]:
                if n["kind"] == "mem" and n["name"] != "m1":
                    steps.append({"do": "query", "name": n["name"]})
        if not reaches_alias(p, "m1"):
            continue
        if not alias_rebind(r, p, steps, collide):
            continue
        if prop == "C01":
            steps.append({"do": "call", "name": "m1"})
        else:
            steps.append({"do": "query", "name": "m1", "truth": True})
        if (collide or r.random() < 0.5) and alias_rebind(r, p, steps, collide):
            steps.append({"do": "call", "name": "m1"} if prop == "C01" else {"do": "query", "name": "m1", "truth": True})
        return {"prog": p0, "steps": steps, "alias_collision": bool(collide)}
    return GEN[prop](r, True)


def history_aba(r, prop):
    """Directed: a function m1 depends on goes A -> B -> A inside one process (each edition re-executed or the
    module reloaded), with m1 called / queried at every stage: the third answer must be the first one again
    and the second a different one."""
    for _ in range(50):
        p0 = vprogs.random_prog(r, nmem=r.choice([2, 3]), nplain=r.choice([1, 2]), nvar=1, hidden_p=0.0)
        p = copy.deepcopy(p0)
        deps = [n for n in p["nodes"] if n["kind"] in ("mem", "plain") and n["name"] != "m1" and reaches(p, "m1", n["name"])]
        if not deps:
            continue
        ask = (lambda: {"do": "call", "name": "m1"}) if prop == "C01" else (lambda: {"do": "query", "name": "m1", "truth": True})
        steps = [{"do": "proc", "hashseed": "0"}, ask()]
        n = r.choice(deps)
        a = copy.deepcopy(n)
        for edition in ("B", "A", "B")[: r.choice([2, 2, 3])]:
            if edition == "B":
                n["slots"][r.choice(vprogs.SLOTS)] += 1
                b = copy.deepcopy(n)
            else:
                n.update(copy.deepcopy(a))
            steps.append({"do": "set", "node": copy.deepcopy(n), "why": {"edit": "aba_" + edition, "name": n["name"]}})
            steps.append({"do": "deliver", "how": r.choice(["reexec", "reexec", "reload"]), "name": n["name"]})
            steps.append(ask())
        return {"prog": p0, "steps": steps}
    return GEN[prop](r, True)


DIRECTED = ["slot:body", "slot:const", "slot:dflt", "slot:kwd", "slot:nested", "slot:setc", "slot:tup", "var", "var_mutate",
            "addref", "delref", "init_helper", "init_helper_modcall", "twin_sm", "late_var", "late_var_mutate", "factory", "lambda", "tuple_mutate", "shadow_builtin"]


def history_directed(r, prop, kind, inproc):
    """One edit of a given kind to something m1 (transitively) uses, delivered in-process or by a new process,
    with m1 asked before and after: every kind of edit is exercised in every run, not only when the dice say so."""
    feat = {"init_helper": {"init_p": 1.0}, "init_helper_modcall": {"init_p": 1.0}, "twin_sm": {"twins_p": 1.0}, "late_var": {"late_p": 1.0},
            "late_var_mutate": {"late_p": 1.0}, "factory": {"factory_p": 1.0}, "lambda": {"lambdas_p": 1.0}, "tuple_mutate": {"tuple_p": 1.0}}.get(kind, {})
    feat = dict(feat, shapes_p=0.6)
    for _ in range(200):
        p0 = vprogs.random_prog(r, nmem=r.choice([2, 3]), nplain=r.choice([1, 2]), nvar=2, hidden_p=0.0, **feat)
        p = copy.deepcopy(p0)
        fns = [n for n in p["nodes"] if vprogs.is_fn(n) and (n["name"] == "m1" or reaches(p, "m1", n["name"]))]
        vars_ = [n for n in p["nodes"] if n["kind"] == "var" and any(q["to"] == n["name"] for f in fns for q in f["refs"])]
        ed = None
        if kind.startswith("slot:"):
            n = r.choice(fns)
            n["slots"][kind[5:]] += 1
            ed = {"edit": "slot", "name": n["name"], "slot": kind[5:]}
        elif kind == "init_helper":
            c = [n for n in fns if n.get("where") == "init"]
            if c:
                n = c[0]
                n["slots"][r.choice(vprogs.SLOTS)] += 1
                ed = {"edit": "init_helper", "name": n["name"]}
        elif kind == "init_helper_modcall":
            # ... a helper in the package module that calls a function of the module through the imported module name: re-defined
            # on its own it is the trigger of the open finding C13-redefinition-compiled-out-of-module-context
            c = [n for n in fns if n.get("where") == "init" and any(q.get("form") == "initmod" for q in n["refs"])]
            if c:
                n = c[0]
                n["slots"][r.choice(vprogs.SLOTS)] += 1
                ed = {"edit": "init_helper", "name": n["name"]}
        elif kind == "tuple_mutate":
            c = [v for v in vars_ if v.get("tuple")]
            if c:
                n = c[0]
                n["val"][1].append(len(n["val"][1]) + 10)
                ed = {"edit": "var_mutate", "name": n["name"]}
        elif kind == "shadow_builtin":
            # the module gets its own plain function under the name of a builtin that a function m1 uses calls by bare name
            users = [f for f in fns if any(q.get("shape") == "strarg" for q in f["refs"])]
            if not users and fns:
                cand = [(f, q) for f in fns for q in f["refs"] if q["to"] != "vs"]
                if cand:
                    f, q = r.choice(cand)
                    q["shape"] = "strarg"
                    p0 = copy.deepcopy(p)
                    users = [f]
            if users and vprogs.node(p, "str") is None:
                n = {"name": "str", "kind": "plain", "shadow": True, "slots": {s_: 0 for s_ in vprogs.SLOTS}, "refs": [], "hidden": [],
                     "explicit": None, "cluster": "vz"}
                p["nodes"].append(n)
                ed = {"edit": "shadow_builtin", "name": "str"}
        elif kind == "lambda":
            c = [n for n in fns if n.get("lam")]
            if c:
                n = r.choice(c)
                n["slots"][r.choice(["body", "const", "dflt"])] += 3
                ed = {"edit": "lambda", "name": n["name"]}
        elif kind == "factory":
            c = [n for n in fns if n.get("factory")]
            if c:
                n = r.choice(c)
                n["slots"]["dflt"] += 2
                ed = {"edit": "factory", "name": n["name"]}
        elif kind == "twin_sm":
            c = [n for n in fns if n.get("cls")]
            if c:
                n = r.choice(c)
                n["slots"][r.choice(vprogs.SLOTS)] += 1
                ed = {"edit": "twin_sm", "name": n["name"]}
        elif kind in ("var", "var_mutate", "late_var", "late_var_mutate"):
            c = [v for v in vars_ if bool(v.get("late")) == kind.startswith("late")]
            if kind.endswith("mutate"):
                c = [v for v in c if isinstance(v["val"], (list, dict))]
            if c:
                n = r.choice(c)
                if kind.endswith("mutate"):
                    if isinstance(n["val"], list):
                        n["val"].append(len(n["val"]) + 10)
                    else:
                        n["val"]["k%d" % len(n["val"])] = 1
                    ed = {"edit": "var_mutate", "name": n["name"]}
                else:
                    ed = vprogs.random_edit(r, {"nodes": [n]}, ["var"])
        elif kind in ("addref", "delref"):
            ed = vprogs.random_edit(r, {"nodes": fns + [v for v in p["nodes"] if v["kind"] == "var"]}, [kind])
            if ed["edit"] != kind:
                ed = None
            else:
                n = vprogs.node(p, ed["name"])
        if ed is None:
            continue
        n = vprogs.node(p, ed["name"])
        if n["kind"] == "mem" and n.get("explicit") is not None:
            continue
        # the first call after the edit may go through a modifier (a clone of the function object)
        ask = (lambda: {"do": "call", "name": "m1", "how": r.choice(["plain", "plain", "clone", "partial"])}) if prop == "C01" else \
            (lambda: {"do": "query", "name": "m1", "truth": True, "how": r.choice(["plain", "plain", "clone", "partial"])})
        steps = [{"do": "proc", "hashseed": "0"}, ask(), {"do": "set", "node": copy.deepcopy(n), "why": dict(ed, directed=kind)}]
        if inproc:
            how = "reexec" if n["kind"] != "var" else ("mutate" if ed["edit"] == "var_mutate" else "setvar")
            if how == "reexec" and r.random() < 0.25:
                how = "reload"
            steps.append({"do": "deliver", "how": how, "name": n["name"]})
        else:
            steps.append({"do": "proc", "hashseed": "0"})
        steps.append(ask())
        return {"prog": p0, "steps": steps, "directed": kind}
    return GEN[prop](r, True)


def history_rebind(r, prop, what):
    """Directed: the name of a memento function m1 uses is bound to a builtin and later to the unchanged definition
    again (what = "builtin"), or to the plain function underneath it (what = "unwrap"); m1 asked at every stage."""
    for _ in range(200):
        p0 = vprogs.random_prog(r, nmem=r.choice([2, 3]), nplain=1, nvar=1, hidden_p=0.0, forms=("bare", "attr"), shapes_p=0.3)
        p = copy.deepcopy(p0)
        deps = [n for n in p["nodes"] if n["kind"] == "mem" and n["name"] != "m1" and reaches(p, "m1", n["name"])]
        if not deps:
            continue
        n = r.choice(deps)
        ask = (lambda: {"do": "call", "name": "m1"}) if prop == "C01" else (lambda: {"do": "query", "name": "m1", "truth": True})
        steps = [{"do": "proc", "hashseed": "0"}, ask()]
        if what == "unwrap":
            n["post"] = "fn"
            steps += [{"do": "set", "node": copy.deepcopy(n), "why": {"edit": "unwrap", "name": n["name"]}},
                      {"do": "deliver", "how": "unwrap", "name": n["name"]}, ask()]
        else:
            orig = copy.deepcopy(n)
            n["kind"] = "builtin"
            steps += [{"do": "set", "node": copy.deepcopy(n), "why": {"edit": "to_builtin", "name": n["name"]}},
                      {"do": "deliver", "how": "reexec", "name": n["name"]}, ask()]
            n.update(orig)
            steps += [{"do": "set", "node": copy.deepcopy(n), "why": {"edit": "from_builtin", "name": n["name"]}},
                      {"do": "deliver", "how": "reexec", "name": n["name"]}, ask()]
        return {"prog": p0, "steps": steps, "directed": what}
    return GEN[prop](r, True)


def reexec_out_of_context(job, asked):
    """Open finding C13-redefinition-compiled-out-of-module-context: the history re-executes, ON ITS OWN, the definition of a
    function that calls through a name the module binds by an import statement (`_mod.h2(a)`), and the function asked for its
    version uses that function.  CPython compiles such a call differently when the import statement is not in the same
    compilation unit; the code hash is taken from the bytecode."""
    cur = {n["name"]: n for n in job["prog"]["nodes"]}
    hit = set()
    for s in job["steps"]:
        if s["do"] == "set":
            cur[s["node"]["name"]] = s["node"]
        elif s["do"] == "deliver" and s.get("how") == "reexec":
            n = cur.get(s["name"])
            if n and any(q.get("form") == "initmod" for q in n.get("refs", [])):
                hit.add(s["name"])
    if not hit or not asked:
        return False
    p = {"nodes": list(cur.values()), "aliases": job["prog"].get("aliases", [])}
    return any(x == asked or reaches(p, asked, x) for x in hit)


def reaches_alias(p, src):
    """does src (transitively) call through an alias name?"""
    seen, todo = set(), [src]
    while todo:
        n = todo.pop()
        if n in seen:
            continue
        seen.add(n)
        nd = vprogs.node(p, n)
        if nd and "refs" in nd:
            for q in nd["refs"]:
                if q["form"] == "alias":
                    return True
                todo.append(q["to"])
    return False


def replay_version_model(rep, wd, quick):
    """spec -> code: behaviours of Version.tla (tlc -simulate) performed on real interpreter processes; the version strings
    the code answers must induce the same equalities as the abstract versions of the model along the whole behaviour (also
    across processes), and a root call must be served exactly when the model says so."""
    from . import tlaparse
    behs, sr = tlc.simulate("MCVersion", "Version_sim.cfg", wd, num=(40 if quick else 400), depth=11, seed=common.seed() + 5,
                            only={"last", "text", "atarget", "val"})
    rep.add_tlc(sr, "simulate Version_sim.cfg (behaviours replayed on real interpreters)")
    jobs = []
    for b in behs:
        for st in b:
            s_ = st["state"]
            if "text" in s_:
                for n, t in s_["text"].items():
                    t["refs"] = sorted(t["refs"])
        jobs.append({"behaviour": b})
    res = common.run_jobs("vmodel_worker.py", jobs, wd, timeout=3000)
    nonconf, notes, nq, ncall, nknown = 0, [], 0, 0, 0

    def collides(ver):
        seen = {}
        for t in (ver or []):
            t = list(t)
            if seen.setdefault((t[0], t[2]), repr(t[3])) != repr(t[3]):
                return True
        return False
    for b, out in zip(behs, res):
        a2r, r2a = {}, {}
        bad = None
        for i, (step, got) in enumerate(zip(b[1:], out["results"])):
            e = step["state"]["last"]
            if got is None:
                continue
            if got.get("exc"):
                if e["ev"] == "Query":
                    bad = {"step": i + 1, "event": e["ev"], "n": e.get("n"), "exc": got["exc"][:120]}
                    break
                continue          # a call of a program whose variable is undefined raises NameError: nothing to compare
            if collides(e.get("ver")):
                # one function reached under two symbols that hold different objects: the code keeps one rule for both
                # (open finding C13-/C01-two-symbols-one-function-one-rule); the model keeps both, so what follows differs
                nknown += 1
                break
            if e["ev"] == "Query":
                nq += 1
                av = tlaparse._freeze(e["ver"])
                rv = got.get("ver")
                if a2r.setdefault(av, rv) != rv or r2a.setdefault(rv, av) != av:
                    bad = {"step": i + 1, "event": "Query", "n": e.get("n"), "wrapper": e.get("wrapper"),
                           "why": "version equalities differ from the model's", "real": rv}
                    break
            elif e["ev"] == "Call":
                ncall += 1
                served = "f" not in (got.get("ran") or [])
                if served != bool(e["served"]):
                    bad = {"step": i + 1, "event": "Call", "model_served": bool(e["served"]), "real_served": served}
                    break
        if bad:
            nonconf += 1
            if len(notes) < 5:
                bad["events"] = [{k: (v if k != "ver" else "...") for k, v in s_["state"]["last"].items()} for s_ in b[1:bad["step"] + 1]]
                notes.append(bad)
    rep.cov["model_behaviours_replayed"] = len(behs)
    rep.cov["model_queries_compared"] = nq
    rep.cov["model_calls_compared"] = ncall
    rep.cov["model_behaviours_cut_at_open_finding"] = nknown
    kinds = {}
    for b in behs:
        for st in b[1:]:
            k = st["state"]["last"]["ev"]
            kinds[k] = kinds.get(k, 0) + 1
    rep.cov["model_events_replayed"] = kinds
    rep.cov["nonconformances"] = rep.cov.get("nonconformances", 0) + nonconf
    if nonconf:
        print("NONCONFORMANCE: %d of %d replayed Version.tla behaviours diverge from the model (informational)" % (nonconf, len(behs)))
        for n_ in notes[:3]:
            print("  " + json.dumps(n_)[:700])
        rep.cov["nonconformance_notes"] = notes


GEN = {"C01": history_c01, "C03": history_c03, "C13": history_c13}
NJOBS = {"C01": (36, 1200), "C03": (40, 300), "C13": (36, 1500)}


def merge_truth(events):
    """query + following truth event -> one query event with truth fields"""
    out = []
    i = 0
    while i < len(events):
        e = dict(events[i])
        e.pop("step", None)
        e.pop("twin", None)
        if e["op"] == "query":
            e.setdefault("ver", "")
            e["truth"], e["truthexc"] = "", ""
            if i + 1 < len(events) and events[i + 1]["op"] == "truth":
                e["truth"] = events[i + 1].get("ver", "")
                e["truthexc"] = events[i + 1].get("exc", "")
                i += 1
            elif not (events[i].get("step") or {}).get("truth"):
                e["truth"], e["truthexc"] = e["ver"], ""
        if e["op"] == "call":
            e.setdefault("same", False)
            e.setdefault("ran", [])
            e["got"] = json.dumps(e.get("got"))[:300]
        out.append(e)
        i += 1
    return out


def run(prop, tier):
    rep = Report(prop, tier)
    quick = tier == "quick"
    r = rng(prop)
    with Scratch(prop) as wd:
        mc = tlc.model_check("MCVersion", "Version_quick.cfg" if quick else "Version_thorough.cfg", wd,
                             timeout=600 if quick else 7200)
        rep.add_tlc(mc, "exhaustive: Version.tla (hash rules, generation counter, version cache, did_change) keeps Coherent / Fresh / Deterministic")
        common.tick("model check done")
        if not quick:
            kf = {"C13": [("Version_KF_AdoptCached.cfg", "Coherent"), ("Version_KF_AliasBlind.cfg", "Coherent"),
                          ("Version_KF_OneRulePerKey.cfg", "Coherent")],
                  "C01": [("Version_KF_DefaultsNotHashed.cfg", "Fresh")]}.get(prop, [])
            for cfg_, inv in kf:
                tlc.expect_counterexample("MCVersion", cfg_, inv, wd)
            if kf:
                rep.cov["deviation_configs_with_counterexample"] = [c for c, _ in kf]
        if prop == "C14":
            from . import check_closure
            return check_closure.run_body(rep, r, wd, quick)
        if prop == "C13":
            replay_version_model(rep, wd, quick)
        n = NJOBS[prop][0 if quick else 1]
        jobs = [history_alias(r, prop, collide=(i % 12 == 11)) if prop in ("C01", "C13") and i % 6 == 5 else
                history_aba(r, prop) if prop in ("C01", "C13") and i % 6 == 2 else GEN[prop](r, quick) for i in range(n)]
        if prop in ("C01", "C13"):
            for rep_ in range(1 if quick else 12):
                for kind in DIRECTED:
                    jobs.append(history_directed(r, prop, kind, inproc=True))
                    if prop == "C01":
                        jobs.append(history_directed(r, prop, kind, inproc=False))
                for what in ("builtin", "unwrap", "builtin"):
                    jobs.append(history_rebind(r, prop, what))
        traces = common.run_jobs("ver_worker.py", jobs, wd, timeout=3000)
        common.tick("executed %d histories" % len(traces))
        payload = [{"cfg": {"prop": prop}, "ev": merge_truth(t["ev"])} for t in traces]
        rej, vr = tlc.validate_traces("TraceVersion", payload, wd, timeout=1500)
        rep.add_tlc(vr, "trace validation TraceVersion (%s)" % prop)
        rep.cov["traces_validated_against_impl"] = len(traces)
        rep.cov["evaluations"] = sum(len(p["ev"]) for p in payload)
        rep.cov["programs"] = len(jobs)
        rep.cov["distinct_nontrivial"] = len({json.dumps(j) for j in jobs})
        edits = {}
        for j in jobs:
            for s in j["steps"]:
                if s["do"] == "set":
                    k = (s.get("why") or {}).get("edit", "?") + ("/" + s["why"]["slot"] if (s.get("why") or {}).get("slot") else "")
                    edits[k] = edits.get(k, 0) + 1
        rep.cov["edits_by_kind"] = edits
        rep.cov["rule"] = {
            "C01": "random programs (memento + plain functions, variables, defaults, keyword-only defaults, set/tuple constants, nested "
                   "code, hidden dynamic calls) x 2-4 edits, each delivered cross-process (fresh interpreter, same store) or in-process "
                   "(re-executed definition, module reload, rebinding, in-place mutation), memoized call compared with the plain twin",
            "C03": "random programs x 3-4 interpreter processes with different PYTHONHASHSEED, definition order and query order on one store",
            "C13": "random in-process histories (redefinitions, re-executed cells, variable rebinding/mutation, late definitions, memento<->plain "
                   "swaps, clones/wrappers) with version queries interleaved, each compared with a fresh interpreter on the resulting program",
        }[prop]
        rep.sample({"steps": [{k: v for k, v in s.items() if k != "node"} for s in jobs[0]["steps"]],
                    "events": [{k: (v if k != "got" else str(v)[:80]) for k, v in e.items()} for e in payload[0]["ev"][:6]]})
        for rj in rej:
            t = traces[rj["tid"] - 1]
            evs = payload[rj["tid"] - 1]["ev"]
            e = evs[rj["prefix"]] if rj["prefix"] < len(evs) else {}
            # the edits delivered since the previous call/query of this history
            sets = [s for s in jobs[rj["tid"] - 1]["steps"] if s["do"] == "set"]
            kinds = sorted({(s.get("why") or {}).get("edit", "?") + ("/" + s["why"]["slot"] if (s.get("why") or {}).get("slot") else "") for s in sets})
            facts = {"property": prop, "op": e.get("op"), "name": e.get("name"), "how": e.get("how", ""), "why": sorted(rj["why"]),
                     "exc": (e.get("exc") or "")[:100], "edit_kinds_in_history": kinds, "proc": e.get("proc"),
                     "alias_collision": bool(jobs[rj["tid"] - 1].get("alias_collision")),
                     "reexec_out_of_module_context": reexec_out_of_context(jobs[rj["tid"] - 1], e.get("name"))}
            rep.violation(facts, {"job": jobs[rj["tid"] - 1], "events": evs, "accepted_prefix": rj["prefix"],
                                  "failed_clauses": sorted(rj["why"])})
        rep.assumptions += ["the plain twin (same source without decorators) defines 'what an un-memoized execution returns'",
                            "fresh-interpreter ground truth is computed with PYTHONHASHSEED=0"]
    return rep.finish()
