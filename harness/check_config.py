"""C18: declarative configuration is honoured, ordered, and reproducible from its dump."""
import json

from . import common, tlc
from .common import Report, Scratch, rng

VALS = {"stype": ["filesystem", "memory", "null"], "path": [1, 2], "meta": [0, 3], "cache": [0, 1], "ro": [True, False],
        "rtype": ["local", "null"]}


def rand_opts(r, p_set=0.6):
    return {k: ([r.choice(v)] if r.random() < p_set else []) for k, v in VALS.items()}


def rand_env(r):
    env = []
    for ri in range(r.randint(1, 3)):
        repo = []
        for name in r.sample(["ka", "kb"], r.randint(1, 2)):
            opts = rand_opts(r)
            if not opts["path"]:
                opts["path"] = [r.choice([1, 2])]          # the default path is the user's home directory: always give one
            args = rand_opts(r, 0.25)
            repo.append({"name": name, "opts": opts, "args": args})
            if r.random() < 0.3:      # registered under a key that is not the cluster's own name (possibly another cluster's key)
                repo[-1]["own"] = r.choice(["vendor." + name, "ka", "kb", "kc"])
        env.append(repo)
    return env


def run(prop, tier):
    rep = Report(prop, tier)
    quick = tier == "quick"
    r = rng(prop)
    with Scratch(prop) as wd:
        mc = tlc.model_check("Config", "Config.cfg" if quick else "Config_full.cfg", wd, timeout=900)
        rep.add_tlc(mc, "exhaustive: override / file-honoured / dump-load / first-repository laws on ConfigDef over the option matrix")
        envs = [rand_env(r) for _ in range(40 if quick else 900)]
        # single-option environments: each documented option alone, through every delivery form
        for k, vs in VALS.items():
            for v in vs:
                o = {kk: [] for kk in VALS}
                o["path"] = [1]
                o[k] = [v]
                envs.append([[{"name": "ka", "opts": o, "args": {kk: [] for kk in VALS}}]])
        # explicit argument against a different value of the same option in the configuration (constructor form)
        nover = 0
        for k, vs in VALS.items():
            for v1 in vs:
                for v2 in vs:
                    if v1 != v2:
                        o = {kk: [] for kk in VALS}
                        o["path"] = [1]
                        a = {kk: [] for kk in VALS}
                        o[k], a[k] = [v1], [v2]
                        envs.append([[{"name": "ka", "opts": o, "args": a}]])
                        nover += 1
        jobs = []
        # live environments: repositories appended / prepended after names have been looked up
        for i in range(12 if quick else 300):
            e = rand_env(r)
            while len(e) < 2:
                e = rand_env(r)
            idx = list(range(1, len(e) + 1))
            r.shuffle(idx)
            k = r.randint(1, len(idx) - 1)
            jobs.append({"env": e, "how": "mutate", "plan": {"init": idx[:k], "ops": [[r.choice(["append", "prepend"]), ri] for ri in idx[k:]]}})
        for i, e in enumerate(envs):
            hows = ["ctor", "dict", "json", "yaml", "dump"]
            if i >= len(envs) - nover:
                hows = ["ctor", "dump"]
            for h in (hows if not quick or len(hows) == 2 else [hows[i % 5], hows[(i + 2) % 5], "dump"]):
                jobs.append({"env": e, "how": h})
        res = common.run_jobs("config_worker.py", jobs, wd, timeout=2400)
        payload = [{"cfg": {"env": t["env"]}, "ev": [dict({"destructive": True, "dpid": 0, "mpid": 0}, **e) for e in t["ev"]]} for t in res]
        rej, vr = tlc.validate_traces("TraceConfig", payload, wd, timeout=1500)
        rep.add_tlc(vr, "trace validation TraceConfig")
        rep.cov["traces_validated_against_impl"] = len(res)
        rep.cov["evaluations"] = sum(len(t["ev"]) for t in res)
        rep.cov["distinct_nontrivial"] = len({json.dumps([j["env"], j["how"]]) for j in jobs})
        rep.cov["rule"] = ("environments of 1-3 repositories defining clusters ka/kb (duplicates across repositories) with random subsets of "
                           "(also: every option given in the configuration with a different explicit argument; live environments extended by "
                           "append_repo / prepend_repo after look-ups) "
                           "the options {storage type, path, metadata path, memory cache, read-only, runner type} in the configuration and "
                           "as explicit arguments + every single option alone; realised as constructor arguments, inline dict, JSON files "
                           "(relative cluster files), YAML template with parameter, and Environment(env.to_dict()); each cluster name probed "
                           "behaviourally (executes? stored? where do files appear? served after files are wiped? forget rejected?)")
        rep.sample({"env": res[0]["env"], "how": res[0]["how"], "events": res[0]["ev"]})
        for rj in rej:
            t = res[rj["tid"] - 1]
            e = t["ev"][rj["prefix"]] if rj["prefix"] < len(t["ev"]) else {}
            facts = {"property": prop, "how": t["how"], "cluster": e.get("cluster"), "why": sorted(rj["why"]), "exc": (e.get("exc") or "")[:120]}
            rep.violation(facts, {"env": t["env"], "how": t["how"], "event": e, "failed_clauses": sorted(rj["why"])})
        rep.assumptions += ["behaviour is observed through function calls, the files under the configured directories and forget(); "
                            "memory_cache_mb values are 0 or 1 MB"]
    return rep.finish()
