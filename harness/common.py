"""Shared plumbing for the checks: worker pools, evidence files, known findings, verdict lines."""
import json
import os
import random
import shutil
import subprocess
import sys
import tempfile
import time
from concurrent.futures import ThreadPoolExecutor

VERIF = os.path.dirname(os.path.dirname(os.path.abspath(__file__)))
REPO = os.environ.get("VERIF_REPO", "/repo")
PY = "/venv/bin/python"
HARNESS = os.path.join(VERIF, "harness")
PYLIB = os.path.join(HARNESS, "pylib")
GUARD = "TWOSIGMA_MEMENTO_VERIF"
NPROC = int(os.environ.get("VERIF_NPROC", "16"))


def seed():
    try:
        return int(os.environ.get("VERIF_SEED", "0"))
    except ValueError:
        return 0


class Machinery(Exception):
    """Raised for failures of the checking machinery itself (exit status 2)."""


def worker_env(extra=None):
    e = dict(os.environ)
    e["PYTHONPATH"] = os.pathsep.join([REPO, PYLIB, VERIF])
    e[GUARD] = "1"
    e.setdefault("PYTHONHASHSEED", "0")
    e["PYTHONDONTWRITEBYTECODE"] = "1"
    e["HOME"] = e.get("VERIF_HOME", e.get("HOME", "/root"))
    if extra:
        e.update(extra)
    return e


def run_worker(script, payload, workdir, timeout=900, env=None):
    """Run harness/<script> with a JSON payload; returns parsed JSON output."""
    fd, inp = tempfile.mkstemp(prefix="in_", suffix=".json", dir=workdir)
    os.close(fd)
    outp = inp.replace("in_", "out_")
    with open(inp, "w") as f:
        json.dump(payload, f)
    p = subprocess.run([PY, os.path.join(HARNESS, script), inp, outp], env=worker_env(env),
                       capture_output=True, text=True, timeout=timeout, cwd=workdir)
    if p.returncode != 0 or not os.path.exists(outp):
        raise Machinery("worker %s failed (rc=%s):\n%s\n%s" % (script, p.returncode, p.stdout[-2000:], p.stderr[-4000:]))
    with open(outp) as f:
        out = json.load(f)
    os.unlink(inp)
    os.unlink(outp)
    return out


def run_jobs(script, jobs, workdir, key="jobs", outkey="traces", nproc=None, timeout=900, env=None, extra=None):
    """Split jobs across worker processes; preserves order."""
    nproc = nproc or NPROC
    if not jobs:
        return []
    n = max(1, min(nproc, len(jobs)))
    chunks = [jobs[i::n] for i in range(n)]

    def one(ch):
        payload = {key: ch}
        if extra:
            payload.update(extra)
        return run_worker(script, payload, workdir, timeout=timeout, env=env)[outkey]

    with ThreadPoolExecutor(max_workers=n) as ex:
        res = list(ex.map(one, chunks))
    out = [None] * len(jobs)
    for ci, ch in enumerate(res):
        for j, item in enumerate(ch):
            out[ci + j * n] = item
    return out


def run_jobs_flat(script, jobs, workdir, key="jobs", outkey="traces", nproc=None, timeout=900, env=None):
    """Like run_jobs, but a job may produce any number of outputs; outputs are concatenated in job order."""
    nproc = nproc or NPROC
    if not jobs:
        return []
    n = max(1, min(nproc, len(jobs)))
    chunks = [jobs[i::n] for i in range(n)]

    def one(ch):
        res = []
        for j in ch:     # one worker invocation per job keeps the outputs attributable
            res.append(run_worker(script, {key: [j]}, workdir, timeout=timeout, env=env)[outkey])
        return res

    with ThreadPoolExecutor(max_workers=n) as ex:
        res = list(ex.map(one, chunks))
    out = [None] * len(jobs)
    for ci, ch in enumerate(res):
        for j, item in enumerate(ch):
            out[ci + j * n] = item
    flat = []
    for item in out:
        flat.extend(item)
    return flat


class Scratch:
    """Per-run scratch directory outside /repo and /verif, removed on exit."""

    def __init__(self, tag):
        self.tag = tag

    def __enter__(self):
        base = os.environ.get("VERIF_TMP", tempfile.gettempdir())
        self.path = tempfile.mkdtemp(prefix="verif_%s_" % self.tag, dir=base)
        return self.path

    def __exit__(self, *a):
        shutil.rmtree(self.path, ignore_errors=True)


# ------------------------------------------------------------------------------------------
def load_known():
    p = os.path.join(VERIF, "known_findings.json")
    if not os.path.exists(p):
        return []
    with open(p) as f:
        return json.load(f).get("findings", [])


def sig_match(sig, facts):
    """A signature is a dict of field -> required value (or list of allowed values, or
    {"superset": [...]} for set-valued facts).  Every field must match."""
    for k, want in sig.items():
        have = facts.get(k)
        if isinstance(want, dict) and "superset" in want:
            if not set(want["superset"]) <= set(have or []):
                return False
        elif isinstance(want, dict) and "subset" in want:
            if not set(have or []) <= set(want["subset"]):
                return False
        elif isinstance(want, list) and isinstance(have, list):
            if sorted(map(str, want)) != sorted(map(str, have)):      # a set-valued fact must match exactly
                return False
        elif isinstance(want, list):
            if have not in want:
                return False
        elif have != want:
            return False
    return True


class Report:
    """Collects outcomes for one property run, prints verdict lines, writes evidence."""

    def __init__(self, prop, tier, level="model_checking"):
        self.prop = prop
        self.tier = tier
        self.level = level
        self.t0 = time.time()
        self.violations = []
        self.known_hit = {}
        self.cov = {"states": 0, "transitions": 0, "traces_validated_against_impl": 0, "samples": [],
                    "evaluations": 0, "distinct_nontrivial": 0, "nonconformances": 0, "tlc_runs": []}
        self.assumptions = []
        self.known = [k for k in load_known() if k.get("property") == prop and k.get("status") == "open"]
        d = os.path.join(os.environ.get("VERIF_REPLAY_DIR", os.path.join(VERIF, "replays")), prop)
        if os.path.isdir(d):                       # replays of earlier runs of this tier are stale
            for f in os.listdir(d):
                if f.startswith("viol_%s_" % tier):
                    os.unlink(os.path.join(d, f))

    def add_tlc(self, r, what):
        self.cov["states"] += r.get("distinct", 0)
        self.cov["transitions"] += r.get("generated", 0)
        self.cov["tlc_runs"].append({"what": what, "distinct": r.get("distinct", 0), "generated": r.get("generated", 0),
                                     "depth": r.get("depth", 0), "wall_s": r.get("wall_s", 0), "cmd": r.get("cmd", "")})

    def sample(self, s, limit=4):
        if len(self.cov["samples"]) < limit:
            self.cov["samples"].append(s)

    def violation(self, facts, replay_doc):
        """facts: dict describing the failing case (used for known-finding signatures)."""
        for k in self.known:
            if sig_match(k.get("signature", {}), facts):
                self.known_hit.setdefault(k["id"], {"k": k, "n": 0})["n"] += 1
                return False
        d = os.path.join(os.environ.get("VERIF_REPLAY_DIR", os.path.join(VERIF, "replays")), self.prop)
        os.makedirs(d, exist_ok=True)
        path = os.path.join(d, "viol_%s_%d.json" % (self.tier, len(self.violations)))
        if len(self.violations) < 10:
            with open(path, "w") as f:
                json.dump({"property": self.prop, "tier": self.tier, "seed": seed(), "facts": facts, "replay": replay_doc}, f, indent=1, default=str)
        self.violations.append({"facts": facts, "path": path})
        return True

    def finish(self, extra_cov=None):
        if extra_cov:
            self.cov.update(extra_cov)
        for kid, h in self.known_hit.items():
            print("KNOWN-FINDING: property=%s %s [%s, %d occurrence(s) this run]" % (self.prop, h["k"]["what"], kid, h["n"]))
        for v in self.violations[:10]:
            print("VIOLATION property=%s replay=%s" % (self.prop, v["path"]))
            print("  facts: " + json.dumps(v["facts"], default=str)[:600])
        groups = {}
        for v in self.violations:
            k = json.dumps({a: b for a, b in v["facts"].items() if a not in ("step", "detail", "msg", "excmsg", "proc", "fault_ops", "out")},
                           sort_keys=True, default=str)
            groups[k] = groups.get(k, 0) + 1
        if len(self.violations) > 10:
            print("  (%d violations in %d groups; first 10 listed above)" % (len(self.violations), len(groups)))
            for k, n_ in sorted(groups.items(), key=lambda kv: -kv[1])[:15]:
                print("  group x%d: %s" % (n_, k[:400]))
        self.cov["violation_groups"] = [{"n": n_, "facts": json.loads(k)} for k, n_ in sorted(groups.items(), key=lambda kv: -kv[1])[:40]]
        self.cov["known_findings_hit"] = {k: h["n"] for k, h in self.known_hit.items()}
        if not self.cov["samples"]:
            self.cov["samples"] = ["(no sample recorded)"]
        ev = {
            "property_id": self.prop, "tier": self.tier, "seed": seed(), "level": self.level,
            "coverage": self.cov, "assumptions": self.assumptions,
            "wall_s": round(time.time() - self.t0, 2), "violations": len(self.violations),
        }
        evdir = os.environ.get("VERIF_EVIDENCE_DIR", os.path.join(VERIF, "evidence"))   # seeded-change runs write elsewhere
        os.makedirs(evdir, exist_ok=True)
        with open(os.path.join(evdir, self.prop + ".json"), "w") as f:
            json.dump(ev, f, indent=1, default=str)
        status = "FAIL" if self.violations else "ok"
        print("%s %s tier=%s states=%d transitions=%d impl_traces=%d evaluations=%d wall=%.1fs" % (
            self.prop, status, self.tier, self.cov["states"], self.cov["transitions"],
            self.cov["traces_validated_against_impl"], self.cov["evaluations"], time.time() - self.t0))
        return 1 if self.violations else 0


_T0 = time.time()


def tick(msg):
    if os.environ.get("VERIF_VERBOSE"):
        print("[%.1fs] %s" % (time.time() - _T0, msg), file=sys.stderr)


def rng(tag=""):
    return random.Random("%s/%s" % (seed(), tag))
