"""Runner-level conformance driver (C02/C10/C15/C16).

job: {"prog": [...], "cfg": {"backend": "fs"|"memory", "budget": N}, "ops": [...], "amax": 2}
For every root operation: outcome, bodies that ran (in order), and the projection of every
memento present afterwards over the key universe (functions x args 0..amax x contexts)."""
import importlib
import json
import os
import shutil
import sys
import tempfile

import twosigma.memento as m
from twosigma.memento.configuration import ConfigurationRepository, Environment, FunctionCluster
from twosigma.memento.storage_filesystem import FilesystemStorageBackend
from twosigma.memento.storage_memory import MemoryStorageBackend
from twosigma.memento.storage_null import NullStorageBackend

sys.path.insert(0, os.path.dirname(os.path.abspath(__file__)))
import progs  # noqa: E402
import verif_sched  # noqa: E402
import verif_side  # noqa: E402

CTXV = {"none": None, "k1": {"k": 1}, "k2": {"k": None}}   # k2 differs from no context only by a key whose value is None
_counter = [0]


def ctx_id(d):
    if not d:
        return "none"
    if d == {"k": 1}:
        return "k1"
    if d == {"k": None}:
        return "k2"
    return "other:" + json.dumps(d, sort_keys=True)


def with_ctx(fn, c):
    return fn if c == "none" else fn.with_context_args(dict(CTXV[c]))


def outcome(thunk):
    """-> (out, exc) where out is the nested-list outcome"""
    try:
        r = thunk()
    except ValueError as e:
        return mod_parse(e), ""
    except Exception as e:
        if isinstance(e, RuntimeError) and type(e) is RuntimeError:
            return ["X", "RuntimeError"], ("" if "Null runner refusing" in str(e) else "RuntimeError: " + str(e)[:150])
        return ["X", type(e).__name__], type(e).__name__ + ": " + str(e)[:150]
    return r, ""


def mod_parse(e):
    msg = str(e)
    if msg.startswith("E:"):
        parts = msg.split(".")[0].split(":")
        return ["E", int(parts[1]), int(parts[2])]
    if "cannot [de]serialize" in msg:
        return ["U"]
    return ["X", type(e).__name__, msg[:80]]


def conv(x):
    if x is None:
        return ["N"]
    if isinstance(x, Exception):
        return mod_parse(x) if isinstance(x, ValueError) else ["X", type(x).__name__]
    return x


def fn_id(fnref):
    name = fnref.function_name
    return int(name[1:]) if name.startswith("f") and name[1:].isdigit() else 0


def project(mod, nfn, amax, resdir):
    out = []
    for f in range(1, nfn + 1):
        for a in range(0, amax + 1):
            for c in ("none", "k1", "k2"):
                try:
                    mem = with_ctx(mod.FNS[f], c).memento(a)
                except Exception as e:   # reading stored metadata must not raise; reported as a broken entry
                    out.append({"k": [f, a, c], "invs": [["X", type(e).__name__, 0]], "res": [], "deps": [], "out": "X"})
                    continue
                if mem is None:
                    continue
                im = mem.invocation_metadata
                invs = []
                for inv in im.invocations:
                    ek = inv.effective_kwargs
                    invs.append([fn_id(inv.fn_reference), ek.get("a", -1), ctx_id(inv.context_args)])
                res = []
                for h in im.resources:
                    base = os.path.basename(h.url)
                    res.append(int(base[3:]) if base.startswith("res") and base[3:].isdigit() else 0)
                deps = sorted(fn_id(d) for d in mem.function_dependencies)
                out.append({"k": [f, a, c], "invs": invs, "res": res, "deps": deps,
                            "out": "E" if im.result_type.name == "exception" else "V",
                            "rtype": im.result_type.name})
    return out


def key_of(ref):
    """(function id, argument, context id) of a FunctionReferenceWithArguments"""
    return [fn_id(ref.fn_reference), ref.effective_kwargs.get("a", -1), ctx_id(ref.context_args)]


_mech_installed = [False]


def install_mech_recording(storage):
    """external wrappers that log the runner's internal events (mechanism-level trace validation, TraceRunnerMech.tla)"""
    from twosigma.memento import runner_local
    if not _mech_installed[0]:
        orig_prop = runner_local.propagate_dependencies

        def prop(caller_memento, result_memento):
            verif_side.log("Prop", key_of(caller_memento.invocation_metadata.fn_reference_with_args),
                           key_of(result_memento.invocation_metadata.fn_reference_with_args))
            return orig_prop(caller_memento=caller_memento, result_memento=result_memento)
        runner_local.propagate_dependencies = prop
        _mech_installed[0] = True
    orig_memoize = storage.memoize

    def memoize(key_override, memento, result):
        k = key_of(memento.invocation_metadata.fn_reference_with_args)
        try:
            r = orig_memoize(key_override, memento, result)
        except Exception:
            verif_side.log("Memoize", k, False)
            raise
        verif_side.log("Memoize", k, True)
        return r
    storage.memoize = memoize


def mech_events(op, items, ev):
    name = op["op"]
    out = []
    if name == "Call":
        out.append({"k": "call", "f": op["f"], "a": op["a"], "c": op["c"]})
    elif name == "Batch":
        out.append({"k": "batch", "f": op["f"], "args": list(op["args"]), "c": op["c"], "rf": bool(op["rf"])})
    elif name == "Forget":
        out.append({"k": "forget", "f": op["f"], "a": op["a"], "c": op["c"]})
    elif name == "ForgetAll":
        out.append({"k": "forgetall", "f": op["f"]})
    for it in items:
        if it[0] == "Body":
            out.append({"k": "enter", "f": it[1], "a": it[2]})
        elif it[0] == "Res":
            out.append({"k": "res", "r": it[1]})
        elif it[0] == "Memoize":
            out.append({"k": "memoize", "key": it[1], "ok": bool(it[2])})
        elif it[0] == "Prop":
            out.append({"k": "prop", "caller": it[1], "callee": it[2]})
    if name in ("Call", "Batch"):
        out.append({"k": "end", "out": ev.get("out"), "check": ev.get("exc", "") == ""})
    return out


def run_job(job):
    base = tempfile.mkdtemp(prefix="verif_run_")
    old_env = Environment.get()
    _counter[0] += 1
    pkg = "vrgen_%d_%d" % (os.getpid(), _counter[0])
    try:
        resdir = os.path.join(base, "res")
        os.makedirs(resdir)
        for r in (1, 2):
            with open(os.path.join(resdir, "res%d" % r), "w") as f:
                f.write("resource %d" % r)
        os.environ["VERIF_RES_DIR"] = resdir
        src_dir = os.path.join(base, "src")
        os.makedirs(os.path.join(src_dir, pkg))
        with open(os.path.join(src_dir, pkg, "__init__.py"), "w") as f:
            f.write("")
        with open(os.path.join(src_dir, pkg, "mod.py"), "w") as f:
            f.write(progs.source(job["prog"]))
        sys.path.insert(0, src_dir)
        cfg = job["cfg"]
        if cfg["backend"] == "memory":
            storage = MemoryStorageBackend()
        elif cfg["backend"] == "null":
            storage = NullStorageBackend()
        else:
            mb = (cfg["budget"] / 1048576.0) if cfg.get("budget") else None
            storage = FilesystemStorageBackend(path=os.path.join(base, "data"), memory_cache_mb=mb)
        from twosigma.memento.runner_null import NullRunnerBackend
        runner = NullRunnerBackend() if cfg.get("runner") == "null" else None
        def make_env(st):
            return Environment(name="verif", base_dir=base, repos=[ConfigurationRepository(
                name="r", clusters={"vr": FunctionCluster(name="vr", storage=st, runner=runner)})])
        work_env = make_env(storage)
        # the store is looked at, after every operation, through a backend object of its own (no cache): observing must not
        # change what the backend under test has cached
        obs_env = make_env(FilesystemStorageBackend(path=os.path.join(base, "data"))) if cfg["backend"] == "fs" else work_env
        Environment.set(work_env)
        mod = importlib.import_module(pkg + ".mod")
        if job.get("mech"):
            install_mech_recording(storage)
        nfn = len(job["prog"])
        amax = job.get("amax", 2)
        events = []
        for op in job["ops"]:
            verif_side.log.reset()
            ev = dict(op)
            ev["exc"] = ""
            name = op["op"]
            if name == "Reopen":
                if cfg["backend"] == "fs":
                    storage = FilesystemStorageBackend(path=os.path.join(base, "data"), memory_cache_mb=mb)
                    work_env = make_env(storage)
                    Environment.set(work_env)
                    if job.get("mech"):
                        install_mech_recording(storage)
                continue
            if name == "Prevent" and op.get("via") == "nested":
                _counter[0] += 1
                nonce = _counter[0]
                out, exc = outcome(lambda: mod.fz(op["f"], op["a"], op["c"], nonce))
                if exc.startswith("RuntimeError") and "prevented" in exc:
                    exc = ""
                ev["out"], ev["exc"] = conv(out), exc
            elif name == "Prevent":
                fn = with_ctx(mod.FNS[op["f"]], op["c"]).with_prevent_further_calls(True)
                out, exc = outcome(lambda: fn(op["a"]))
                if exc.startswith("RuntimeError") and "prevented" in exc:
                    exc = ""
                ev["out"], ev["exc"] = conv(out), exc
            elif name == "Call":
                fn = with_ctx(mod.FNS[op["f"]], op["c"])
                if op["mod"] == "local":
                    fn = fn.force_local()
                elif op["mod"] == "ignore":
                    fn = fn.ignore_result()
                out, exc = outcome(lambda: fn(op["a"]))
                ev["out"], ev["exc"] = conv(out), exc
            elif name == "Batch":
                fn = with_ctx(mod.FNS[op["f"]], op["c"])
                if op.get("mod") == "local":
                    fn = fn.force_local()
                elif op.get("mod") == "ignore":
                    fn = fn.ignore_result()
                if op.get("how") in ("map", "map_iter"):
                    def thunk():
                        # map_iter: the range is a one-shot iterable (a generator), not a list
                        rng_ = (x for x in list(op["args"])) if op.get("how") == "map_iter" else list(op["args"])
                        d = fn.map_over_range(a=rng_)
                        return ["L", [conv(d[x]) for x in op["args"]]]
                else:
                    def thunk():
                        r = fn.call_batch([{"a": x} for x in op["args"]], raise_first_exception=bool(op["rf"]))
                        return ["L", [conv(x) for x in r]]
                out, exc = outcome(thunk)
                ev["out"], ev["exc"] = out, exc
            elif name == "Par":
                import random as _random
                verif_sched.coop_locks_in(storage)
                outs = [None] * len(op["calls"])
                excs = [""] * len(op["calls"])

                def mk(i, f, a, c):
                    def run_one():
                        fn = with_ctx(mod.FNS[f], c)
                        o, x = outcome(lambda: fn(a))
                        outs[i], excs[i] = conv(o), x
                    return run_one
                pol = verif_sched.policy_random(_random.Random(op["sched"]["random"]), op["sched"].get("p", 0.05))
                ctrl = verif_sched.Controller([mk(i, *cl) for i, cl in enumerate(op["calls"])], pol, max_steps=200000)
                ctrl.run()
                ev["outs"] = outs
                ev["exc"] = "; ".join(x for x in excs if x) + ("deadlock" if ctrl.deadlock else "")
                for t in ctrl.threads:
                    if t.exc is not None:
                        ev["exc"] += " thread: %s: %s" % (type(t.exc).__name__, str(t.exc)[:100])
                ev.pop("sched", None)
            elif name == "Forget":
                try:
                    with_ctx(mod.FNS[op["f"]], op["c"]).forget(op["a"])
                except Exception as e:
                    ev["exc"] = type(e).__name__ + ": " + str(e)[:150]
            elif name == "ForgetExc":          # memento(f, a, c).forget_exceptions_recursively()
                try:
                    mem_ = with_ctx(mod.FNS[op["f"]], op["c"]).memento(op["a"])
                    if mem_ is not None:
                        mem_.forget_exceptions_recursively()
                except Exception as e:
                    ev["exc"] = type(e).__name__ + ": " + str(e)[:150]
            elif name == "ForgetAll":
                try:
                    mod.FNS[op["f"]].forget_all()
                except Exception as e:
                    ev["exc"] = type(e).__name__ + ": " + str(e)[:150]
            items = verif_side.log.take()
            if job.get("mech"):
                ev["mech"] = mech_events(op, items, ev)
            ev["ran"] = [[it[1], it[2]] for it in items if it[0] == "Body"]
            Environment.set(obs_env)
            try:
                ev["mem"] = project(mod, nfn, amax, resdir)
            finally:
                Environment.set(work_env)
            events.append(ev)
        return {"cfg": {"prog": job["prog"], "backend": cfg}, "ev": events}
    finally:
        Environment.set(old_env)
        if sys.path and sys.path[0].startswith(base):
            sys.path.pop(0)
        for k in [k for k in sys.modules if k.startswith(pkg)]:
            del sys.modules[k]
        shutil.rmtree(base, ignore_errors=True)


def main():
    with open(sys.argv[1]) as f:
        doc = json.load(f)
    verif_sched.install_coop_locks()      # locks memento creates from now on cooperate with the thread scheduler
    out = {"traces": [run_job(j) for j in doc["jobs"]]}
    with open(sys.argv[2], "w") as f:
        json.dump(out, f)


if __name__ == "__main__":
    main()
