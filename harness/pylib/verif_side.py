"""Side channel for generated/test programs: execution log that memento's dependency scan
cannot see as a tracked global (the object is of an unsupported type and lives outside the
generated package)."""


class _Log:
    def __init__(self):
        self.events = []

    def __call__(self, *item):
        self.events.append(item)

    def reset(self):
        self.events = []

    def take(self):
        out, self.events = self.events, []
        return out


log = _Log()
