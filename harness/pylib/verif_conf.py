"""Functions in the clusters used by the configuration check (C18)."""
import twosigma.memento as m
from verif_side import log


@m.memento_function(cluster="ka", version="1")
def fa(a):
    log("Body", "fa", a)
    return "A" * 100 + str(a)


@m.memento_function(cluster="kb", version="1")
def fb(a):
    log("Body", "fb", a)
    return "B" * 100 + str(a)


@m.memento_function(cluster="kc", version="1")
def fc(a):
    log("Body", "fc", a)
    return "C" * 100 + str(a)


FNS = {"ka": fa, "kb": fb, "kc": fc}
