"""Plain functions that the naming check (C12) wraps into memento functions with chosen
cluster / version strings; the module attributes fa, Cls.meth are rebound per case."""
from verif_side import log


def fa(a):
    log("Body", "fa", a)
    return ["fa", a]


class Cls:
    @staticmethod
    def meth(a):
        log("Body", "meth", a)
        return ["meth", a]


PLAIN = {"fa": fa, "meth": Cls.__dict__["meth"].__func__}
