"""One generic memento function whose result is whatever the driver registered (C02 value domain)."""
import twosigma.memento as m
from twosigma.memento.exception import NonMemoizedException
from verif_side import log

TABLE = {}


@m.memento_function(cluster="vv", version="1")
def vf(i):
    log("Body", "vf", i)
    return TABLE[i]()


class CustomErr(Exception):
    pass


class TwoArgErr(Exception):
    def __init__(self, a, b):
        super().__init__("%s/%s" % (a, b))


class PickyErr(Exception):
    def __init__(self, msg):
        if "Original stack trace" in msg:
            raise TypeError("PickyErr takes a short message only")
        super().__init__(msg)


class NotRecorded(NonMemoizedException):
    pass


class Inner(Exception):
    """an unrelated top-level class with the bare name of Outer.Inner"""


class Outer:
    class Inner(Exception):
        pass

    class Deep:
        class Err(Exception):
            pass


def make_local_error(msg):
    class LocalErr(Exception):
        pass
    return LocalErr(msg)
