"""Memento functions used as *names* by the storage-level conformance driver.

The qualified names are chosen adversarially: fa#1 is a string prefix of fa#10, fab shares
the stem of fa, and all carry an explicit version so the names are stable.
"""
import twosigma.memento as m


@m.memento_function(cluster="vc", version="1")
def fa(a):
    return a


@m.memento_function(cluster="vc", version="1")
def fab(a):
    return a


@m.memento_function(cluster="vc", version="7:x#1")
def fz(a):
    return a


def _second(fn, version):
    return m.MementoFunction(fn=fn.fn, cluster_name="vc", version=version, register_fn=False)


fa10 = _second(fa, "10")

FNS = {1: fa, 2: fa10, 3: fab, 4: fz}
