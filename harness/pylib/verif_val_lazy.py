"""A module the value functions import only inside their bodies: an exception class that a later reader of the store may not
have imported yet."""


class LazyErr(Exception):
    pass
