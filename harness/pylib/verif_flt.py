"""Memento functions for the crash / I/O-fault scenarios (C08)."""
import twosigma.memento as m
from twosigma.memento.partition import InMemoryPartition
from twosigma.memento.result import KeyOverrideResult
from verif_side import log


def payload(a):
    return ("payload-%d-" % a) * 40


@m.memento_function(cluster="vf", version="1")
def f(a):
    log("Body", "f", a)
    return payload(a)


@m.memento_function(cluster="vf", version="1")
def g(a):                      # produces the same bytes as f: shares the content key
    log("Body", "g", a)
    return payload(a)


@m.memento_function(cluster="vf", version="1")
def ovr(a):
    log("Body", "ovr", a)
    return KeyOverrideResult(payload(a), "ovr/slot")


@m.memento_function(cluster="vf", version="1")
def part(a):
    log("Body", "part", a)
    return InMemoryPartition({"x": payload(a), "y": [a, a + 1], "z": payload(a)})


@m.memento_function(cluster="vf", version="1")
def boom(a):
    log("Body", "boom", a)
    raise ValueError("boom %d" % a)


@m.memento_function(cluster="vf", version="1")
def parent(a):                 # nested: the child is memoized inside the parent's run
    log("Body", "parent", a)
    return f(a) + "|" + g(a)


@m.memento_function(cluster="vf", version="1")
def child(a):                  # a partition merged onto the partition OBJECT another function returned in this very run
    log("Body", "child", a)
    p = part(a)
    c = InMemoryPartition({"w": payload(a + 1)})
    c._merge_parent = p
    return c


FNS = {"f": f, "g": g, "ovr": ovr, "part": part, "boom": boom, "parent": parent, "child": child}


def check(name, a, result, exc):
    """Is (result, exc) the outcome an un-memoized execution would give?"""
    if name == "boom":
        return isinstance(exc, ValueError) and ("boom %d" % a) in str(exc)
    if exc is not None:
        return False
    if name in ("f", "g", "ovr"):
        return result == payload(a)
    if name == "parent":
        return result == payload(a) + "|" + payload(a)
    if name == "child":
        try:
            return (sorted(result.list_keys()) == ["w", "x", "y", "z"] and result.get("w") == payload(a + 1)
                    and result.get("x") == payload(a) and result.get("y") == [a, a + 1] and result.get("z") == payload(a))
        except Exception:
            return False
    if name == "part":
        try:
            return (sorted(result.list_keys()) == ["x", "y", "z"] and result.get("x") == payload(a)
                    and result.get("y") == [a, a + 1] and result.get("z") == payload(a))
        except Exception:
            return False
    return False
