"""Deterministic scheduler for real threads running memento code.

Managed threads run under sys.settrace.  At every *line* event in the files listed in LINE_FILES
and every *call* event in any other twosigma.memento module the running thread parks and the
controller decides who runs next, so exactly one managed thread runs at a time and a schedule
is a sequence of thread indices.  Locks created by memento (module-level RLock objects and the
RLock factory used by runner_local / storage_base) are replaced by cooperative locks so that a
thread that would block is simply not schedulable until the owner releases.
"""
import os
import sys
import threading

LINE_FILES = ("runner_local.py", "storage_base.py", "storage_memory.py", "call_stack.py")
_PKG = os.sep + os.path.join("twosigma", "memento") + os.sep

READY, BLOCKED, DONE = "ready", "blocked", "done"


class SchedulerStuck(Exception):
    """The controller lost track of a thread (unmanaged blocking): machinery failure."""


class Managed:
    def __init__(self, idx, fn):
        self.idx = idx
        self.fn = fn
        self.sem = threading.Semaphore(0)
        self.state = READY
        self.waiting_on = None
        self.result = None
        self.exc = None
        self.thread = None
        self.steps = 0


_current = threading.local()
_controller = None


class CoopRLock:
    """Re-entrant lock cooperating with the controller (and behaving like an uncontended RLock
    for unmanaged threads, which only run while no managed thread exists)."""

    def __init__(self):
        self.owner = None
        self.count = 0
        self.acquisitions = 0

    def acquire(self, blocking=True, timeout=-1):
        me = getattr(_current, "m", None)
        ident = me if me is not None else ("unmanaged", threading.get_ident())
        while True:
            if self.owner is None or self.owner == ident:
                self.owner = ident
                self.count += 1
                self.acquisitions += 1
                return True
            if me is None or _controller is None:
                raise SchedulerStuck("unmanaged thread would block on a cooperative lock")
            if not blocking:
                return False
            me.state = BLOCKED
            me.waiting_on = self
            _controller.park(me)

    def release(self):
        me = getattr(_current, "m", None)
        ident = me if me is not None else ("unmanaged", threading.get_ident())
        if self.owner != ident:
            raise RuntimeError("cannot release un-acquired lock")
        self.count -= 1
        if self.count == 0:
            self.owner = None

    __enter__ = acquire

    def __exit__(self, *a):
        self.release()

    def _is_owned(self):
        return self.owner is not None


_RLOCK_TYPE = type(threading.RLock())
_LOCK_TYPE = type(threading.Lock())


def _table_lock():
    """factory of the replaced lock tables: in the original it is Python code (`lambda: RLock()`), so a thread switch can happen
    INSIDE it, between the look-up that missed and the insertion of the new lock - it is a decision point here too"""
    me = getattr(_current, "m", None)
    if me is not None and _controller is not None:
        _controller.yield_point(me)
    return CoopRLock()


def install_coop_locks():
    """Replace lock factories and module-level lock instances in all loaded memento modules."""
    from collections import defaultdict
    replaced = []
    for name, mod in list(sys.modules.items()):
        if not name.startswith("twosigma.memento") or mod is None:
            continue
        for attr, val in list(vars(mod).items()):
            if attr in ("RLock", "Lock") and callable(val):
                setattr(mod, attr, CoopRLock)
                replaced.append("%s.%s (factory)" % (name, attr))
            elif isinstance(val, (_RLOCK_TYPE, _LOCK_TYPE)):
                setattr(mod, attr, CoopRLock())
                replaced.append("%s.%s (instance)" % (name, attr))
            elif attr == "threading" and val is threading:
                pass
            elif isinstance(val, defaultdict) and attr.endswith("_mutex"):
                setattr(mod, attr, defaultdict(_table_lock))
                replaced.append("%s.%s (table)" % (name, attr))
    return replaced


def coop_locks_in(obj, seen=None, depth=0):
    """Replace lock instances held in attributes of obj (e.g. a lock a MemoryCache creates)."""
    n = 0
    if depth > 3 or obj is None:
        return 0
    seen = seen if seen is not None else set()
    if id(obj) in seen:
        return 0
    seen.add(id(obj))
    d = getattr(obj, "__dict__", None)
    if not isinstance(d, dict):
        return 0
    for k, v in list(d.items()):
        if isinstance(v, (_RLOCK_TYPE, _LOCK_TYPE)):
            d[k] = CoopRLock()
            n += 1
        elif type(v).__module__.startswith("twosigma.memento"):
            n += coop_locks_in(v, seen, depth + 1)
    return n


class Controller:
    def __init__(self, fns, policy, max_steps=20000, wait_s=20.0):
        self.threads = [Managed(i, f) for i, f in enumerate(fns)]
        self.policy = policy
        self.ctl = threading.Semaphore(0)
        self.step = 0
        self.max_steps = max_steps
        self.wait_s = wait_s
        self.schedule = []          # thread index chosen at each decision
        self.deadlock = False
        self.current = None

    # -- called from managed threads ---------------------------------------------------------
    def park(self, me):
        self.ctl.release()
        me.sem.acquire()

    def yield_point(self, me):
        me.state = READY
        me.steps += 1
        self.park(me)

    def _tracer_for(self, me):
        ctrl = self

        def local_line(frame, event, arg):
            if event == "line":
                ctrl.yield_point(me)
            return local_line

        def global_trace(frame, event, arg):
            if event != "call":
                return None
            fn = frame.f_code.co_filename
            if _PKG not in fn:
                return None
            if fn.endswith(LINE_FILES):
                ctrl.yield_point(me)
                return local_line
            ctrl.yield_point(me)
            return None

        return global_trace

    def _run_thread(self, me):
        _current.m = me
        me.sem.acquire()                 # wait to be scheduled for the first time
        sys.settrace(self._tracer_for(me))
        try:
            me.result = me.fn()
        except BaseException as e:       # recorded and judged by the monitor
            me.exc = e
        finally:
            sys.settrace(None)
            me.state = DONE
            self.ctl.release()

    # -- controller ---------------------------------------------------------------------------
    def enabled(self):
        out = []
        for t in self.threads:
            if t.state == READY:
                out.append(t)
            elif t.state == BLOCKED and t.waiting_on.owner is None:
                out.append(t)
        return out

    def run(self):
        global _controller
        _controller = self
        try:
            for t in self.threads:
                t.thread = threading.Thread(target=self._run_thread, args=(t,), daemon=True)
                t.thread.start()
            while True:
                live = [t for t in self.threads if t.state != DONE]
                if not live:
                    break
                en = self.enabled()
                if not en:
                    self.deadlock = True
                    break
                nxt = self.policy(self, en)
                self.schedule.append(nxt.idx)
                self.current = nxt
                self.step += 1
                if self.step > self.max_steps:
                    raise SchedulerStuck("step limit exceeded")
                if nxt.state == BLOCKED:
                    nxt.state = READY
                nxt.sem.release()
                if not self.ctl.acquire(timeout=self.wait_s):
                    raise SchedulerStuck("thread %d did not come back to the controller" % nxt.idx)
        finally:
            _controller = None
        return self


# -- policies -------------------------------------------------------------------------------------
def policy_preemptions(start, preempts):
    """Run `start` first; at global decision number s (1-based) switch to thread u for every
    (s, u) in preempts; otherwise keep running the current thread while it is enabled, else the
    lowest-index enabled thread (non-preemptive default)."""
    pre = dict(preempts)

    def pol(ctrl, enabled):
        idxs = [t.idx for t in enabled]
        want = pre.get(ctrl.step + 1)
        if ctrl.step == 0 and start in idxs:
            return ctrl.threads[start]
        if want is not None and want in idxs:
            return ctrl.threads[want]
        if ctrl.current is not None and ctrl.current.idx in idxs:
            return ctrl.current
        return enabled[0]

    return pol


def policy_park(start, k, other, nbodies):
    """Two preemptions chosen by what happens, not by position: run `start`; at global decision number k park it and run
    `other` until `other` has entered a function body (nbodies() grows) - or cannot go on -; then switch back to `start` and
    let it run on while `other` sits in its body; non-preemptive afterwards.  The schedule that attacks single flight:
    every guard `start` still has to pass is passed while the other caller of the same call is computing."""
    st = {"phase": 0, "n0": 0}

    def pol(ctrl, enabled):
        idxs = [t.idx for t in enabled]
        if ctrl.step == 0 and start in idxs:
            return ctrl.threads[start]
        if st["phase"] == 0 and ctrl.step + 1 >= k and other in idxs:
            st["phase"], st["n0"] = 1, nbodies()
            return ctrl.threads[other]
        if st["phase"] == 1:
            if nbodies() > st["n0"] and start in idxs:
                st["phase"] = 2
                return ctrl.threads[start]
            if other in idxs:
                return ctrl.threads[other]
            st["phase"] = 2
        if ctrl.current is not None and ctrl.current.idx in idxs:
            return ctrl.current
        return enabled[0]

    return pol


def policy_random(rnd, p_switch=0.15):
    def pol(ctrl, enabled):
        if ctrl.current is not None and ctrl.current in enabled and rnd.random() > p_switch:
            return ctrl.current
        return rnd.choice(enabled)

    return pol
