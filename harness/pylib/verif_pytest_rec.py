"""pytest plugin: records what the repository's OWN test suite does to storage backends, in the vocabulary of the
property monitors (spec/SuiteMon.tla = DictMon + the read-only clauses of RoMon), so that the executions the
maintainers wrote are validated against the specification, with every clause evaluated at every step - not just
the assertions the tests happen to make.

Loaded with  -p verif_pytest_rec  (PYTHONPATH=/verif/harness/pylib); does nothing unless TWOSIGMA_MEMENTO_VERIF=1
and VERIF_REC_OUT=<file> are set.  Nothing in the repository is edited: the public methods of the storage backend
classes are wrapped from outside when the plugin is configured.

One event per OUTERMOST backend call (read_metadata calls get_mementos internally: not an event), recorded after
the call returned or raised, under one global lock (the suite has a few multi-threaded tests; the lock makes the
recorded order the real order).  An audit hook counts mutating file-system operations below the directories of a
store: during a call they are the `muts` of the event (read-only backends must have none), outside any call they
are an `External` event (a test removed or edited the store behind the backend's back: the harness stops
validating that store there).
"""
import copy
import datetime
import json
import math
import os
import sys
import threading

ON = os.environ.get("TWOSIGMA_MEMENTO_VERIF") == "1" and bool(os.environ.get("VERIF_REC_OUT"))

_lock = threading.RLock()
_tls = threading.local()
_events = []
_stores = {}          # identity -> {"id": n, "kind": ..., "roots": [...]}
_by_obj = {}          # id(backend) -> identity   (backends are pinned in _pins so ids are never reused)
_pins = []
_cur_test = [""]
_roots = []           # (root path, store id)
_in_call = [0]
_muts = [0]

_MUT_EVENTS = {"os.mkdir", "os.rename", "os.remove", "os.rmdir", "os.unlink", "shutil.rmtree",
               "os.truncate", "os.chmod", "os.symlink", "os.link", "os.replace"}


class Interner:
    def __init__(self):
        self.t = {}

    def __call__(self, x):
        if x not in self.t:
            self.t[x] = len(self.t) + 1
        return self.t[x]


_fid, _hid, _mid, _mkid = Interner(), Interner(), Interner(), Interner()
_values = []          # equivalence classes of values seen: index + 1 is the value id
_bytes = Interner()


def _store_hit(path):
    for root, sid in _roots:
        if path == root or path.startswith(root + os.sep):
            return sid
    return None


def _audit(event, args):
    if not _roots:
        return
    try:
        if event == "open":
            path, mode, flags = args
            if not isinstance(flags, int) or not (flags & (os.O_WRONLY | os.O_RDWR | os.O_CREAT | os.O_TRUNC | os.O_APPEND)):
                return
            p = os.fsdecode(path)
        elif event in _MUT_EVENTS:
            p = os.fsdecode(args[0]) if args else ""
        else:
            return
    except Exception:
        return
    p = os.path.abspath(p)
    sid = _store_hit(p)
    if sid is None:
        # removing a directory ABOVE a store removes the store
        if event in ("shutil.rmtree", "os.rename", "os.replace"):
            hit = [s for r, s in _roots if r.startswith(p + os.sep)]
            if not hit:
                return
            sid = hit[0]
        else:
            return
    if _in_call[0]:
        _muts[0] += 1
    else:
        with _lock:
            _events.append({"store": sid, "op": "External", "what": event, "test": _cur_test[0]})


def typed_equal(a, b):
    import numpy as np
    import pandas as pd
    from twosigma.memento.partition import Partition
    if isinstance(b, Partition):
        if not isinstance(a, Partition):
            return False
        try:
            if sorted(a.list_keys()) != sorted(b.list_keys()):
                return False
            return all(typed_equal(a.get(k), b.get(k)) for k in b.list_keys())
        except Exception:
            return False
    if callable(getattr(a, "fn_reference", None)) or callable(getattr(b, "fn_reference", None)):
        # memento functions: equal iff they name the same function with the same bound arguments and parameter names
        try:
            ra, rb = a.fn_reference(), b.fn_reference()
            return (ra.qualified_name == rb.qualified_name and typed_equal(list(ra.partial_args or ()), list(rb.partial_args or ()))
                    and typed_equal(dict(ra.partial_kwargs or {}), dict(rb.partial_kwargs or {}))
                    and list(ra.parameter_names or []) == list(rb.parameter_names or []))
        except Exception:
            return False
    if isinstance(a, BaseException) or isinstance(b, BaseException):
        from twosigma.memento.exception import MementoException
        if isinstance(a, MementoException) and isinstance(b, MementoException):
            # (the recorded stack trace is cut to a maximum length when stored)
            return a.exception_name == b.exception_name and a.message == b.message
        return type(a) is type(b) and str(a) == str(b)
    if type(a) is not type(b):
        return False
    if a is None:
        return True
    if isinstance(a, float):
        return (math.isnan(a) and math.isnan(b)) or a == b
    if isinstance(a, (bool, int, str, bytes, datetime.date)):
        return a == b
    if isinstance(a, (list, tuple)):
        return len(a) == len(b) and all(typed_equal(x, y) for x, y in zip(a, b))
    if isinstance(a, dict):
        return list(a.keys()) == list(b.keys()) and all(typed_equal(a[k], b[k]) for k in a)
    if isinstance(a, np.ndarray):
        return a.dtype == b.dtype and a.shape == b.shape and bool(np.array_equal(a, b, equal_nan=a.dtype.kind == "f"))
    if isinstance(a, pd.Index):
        return a.equals(b)
    if isinstance(a, pd.Series):
        return a.dtype == b.dtype and a.index.equals(b.index) and a.equals(b)
    if isinstance(a, pd.DataFrame):
        return list(a.columns) == list(b.columns) and a.index.equals(b.index) and a.equals(b)
    try:
        return bool(a == b)
    except Exception:
        return a is b


def _vid(v):
    for i, w in enumerate(_values):
        try:
            if typed_equal(v, w):
                return i + 1
        except Exception:
            pass
    try:
        keep = copy.deepcopy(v)
    except Exception:
        keep = v
    _values.append(keep)
    return len(_values)


def _memento_id(mem):
    if mem is None:
        return 0
    try:
        ref = mem.invocation_metadata.fn_reference_with_args
        t = mem.time.isoformat() if mem.time is not None else ""
        return _mid((t, mem.correlation_id, ref.fn_reference.qualified_name, ref.arg_hash,
                     str(mem.invocation_metadata.result_type)))
    except Exception:
        return -1


def _key_of_memento(mem):
    ref = mem.invocation_metadata.fn_reference_with_args
    return _fid(ref.fn_reference.qualified_name), _hid(ref.arg_hash)


def _key_of_fwah(x):
    return _fid(x.fn_reference.qualified_name), _hid(x.arg_hash)


def _identity(b):
    k = _by_obj.get(id(b))
    if k is not None:
        return k
    from twosigma.memento.storage_filesystem import FilesystemStorageBackend
    from twosigma.memento.storage_memory import MemoryStorageBackend
    from twosigma.memento.storage_null import NullStorageBackend
    roots = []
    if isinstance(b, FilesystemStorageBackend):
        kind = "fs"
        try:
            roots = sorted({os.path.abspath(str(b._data_source.base_path)),
                            os.path.abspath(str(b._metadata_source._data_source.base_path))})
        except Exception:
            roots = [os.path.abspath(str(getattr(b, "config_path", "?")))]
        ident = ("fs",) + tuple(roots)
    elif isinstance(b, MemoryStorageBackend):
        kind, ident = "memory", ("memory", len(_pins))
    elif isinstance(b, NullStorageBackend):
        kind, ident = "null", ("null", len(_pins))
    else:
        kind, ident = "other", (type(b).__name__, len(_pins))
    _pins.append(b)
    _by_obj[id(b)] = ident
    if ident not in _stores:
        _stores[ident] = {"id": len(_stores) + 1, "kind": kind, "roots": roots,
                          "cache": bool(getattr(b, "_memory_cache", None))}
        for r in roots:
            _roots.append((r, _stores[ident]["id"]))
    elif getattr(b, "_memory_cache", None):
        _stores[ident]["cache"] = True
    return ident


def _describe(name, self, args, kwargs, ev):
    """fields known before the call"""
    def arg(i, kw):
        return args[i] if len(args) > i else kwargs.get(kw)
    if name == "memoize":
        mem, result = arg(1, "memento"), arg(2, "result")
        ev["op"] = "Memoize"
        ev["f"], ev["h"] = _key_of_memento(mem)
        ev["mid"] = _memento_id(mem)
        ev["v"] = _vid(result)
        ev["ovr"] = 1 if arg(0, "key_override") else 0
    elif name == "get_mementos":
        fns = list(arg(0, "fns"))
        ev["op"] = "GetMementos"
        ev["keys"] = [list(_key_of_fwah(x)) for x in fns]
    elif name == "read_result":
        mem = arg(0, "memento")
        ev["op"] = "ReadResult"
        ev["f"], ev["h"] = _key_of_memento(mem)
        ev["mid"] = _memento_id(mem)
    elif name == "is_memoized":
        ev["op"] = "IsMemoized"
        ev["f"], ev["h"] = _fid(arg(0, "fn_reference").qualified_name), _hid(arg(1, "arg_hash"))
    elif name == "is_all_memoized":
        fns = list(arg(0, "fns"))
        ev["op"] = "IsAllMemoized"
        ev["keys"] = [list(_key_of_fwah(x.fn_reference_with_arg_hash())) for x in fns]
        return (fns,)
    elif name == "forget_call":
        ev["op"] = "ForgetCall"
        ev["f"], ev["h"] = _key_of_fwah(arg(0, "fn_with_arg_hash"))
    elif name == "forget_function":
        ev["op"] = "ForgetFunction"
        ev["f"] = _fid(arg(0, "fn_reference").qualified_name)
    elif name == "forget_everything":
        ev["op"] = "ForgetEverything"
    elif name == "list_functions":
        ev["op"] = "ListFunctions"
    elif name == "list_mementos":
        ev["op"] = "ListMementos"
        ev["f"] = _fid(arg(0, "fn").qualified_name)
        ev["limit"] = int(arg(1, "limit") or 0)
    elif name == "read_metadata":
        ev["op"] = "ReadMetadata"
        ev["f"], ev["h"] = _key_of_fwah(arg(0, "fn_with_arg_hash"))
        ev["mk"] = _mkid(arg(1, "key"))
    elif name == "write_metadata":
        ev["op"] = "WriteMetadata"
        ev["f"], ev["h"] = _key_of_fwah(arg(0, "fn_with_arg_hash"))
        ev["mk"] = _mkid(arg(1, "key"))
        ev["b"] = _bytes(bytes(arg(2, "value")))
        ev["wd"] = bool(arg(3, "store_with_content_key"))
    return None


def _result(name, ev, res):
    if name == "get_mementos":
        ev["ret"] = [_memento_id(x) for x in res]
    elif name == "read_result":
        ev["ret"] = _vid(res)
    elif name in ("is_memoized", "is_all_memoized"):
        ev["ret"] = bool(res)
    elif name == "list_functions":
        ev["ret"] = sorted(_fid(x.qualified_name) for x in (res or []))
    elif name == "list_mementos":
        ev["ret"] = sorted(_memento_id(x) for x in (res or []))
    elif name == "read_metadata":
        ev["ret"] = 0 if res is None else _bytes(bytes(res))


_DEFAULT_RET = {"get_mementos": [], "list_functions": [], "list_mementos": [], "is_memoized": False,
                "is_all_memoized": False, "read_metadata": 0, "read_result": 0}
METHODS = ("memoize", "get_mementos", "read_result", "is_memoized", "is_all_memoized", "forget_call", "forget_function",
           "forget_everything", "list_functions", "list_mementos", "read_metadata", "write_metadata")


def _wrap(cls, name):
    orig = cls.__dict__[name]

    def wrapper(self, *args, **kwargs):
        if getattr(_tls, "depth", 0):
            return orig(self, *args, **kwargs)       # an inner call of a recorded call
        with _lock:
            _tls.depth = 1
            ev = {"test": _cur_test[0], "exc": "", "thread": threading.get_ident() % 100000}
            try:
                ident = _identity(self)
                st = _stores[ident]
                ev["store"] = st["id"]
                ev["ro"] = bool(getattr(self, "read_only", False))
                extra = _describe(name, self, args, kwargs, ev)
                if extra is not None:         # an iterable argument was consumed: pass the list on
                    args = extra + tuple(args[1:])
                    kwargs = {k: v for k, v in kwargs.items() if k != "fns"}
            except Exception as e:            # the recorder must never change what the test sees
                ev = {"op": "RecorderError", "store": -1, "why": "%s: %s" % (type(e).__name__, e), "test": _cur_test[0]}
                _events.append(ev)
                _tls.depth = 0
                return orig(self, *args, **kwargs)
            _in_call[0] += 1
            _muts[0] = 0
            try:
                res = orig(self, *args, **kwargs)
            except BaseException as e:
                ev["exc"] = type(e).__name__
                ev["excmsg"] = str(e)[:160]
                if name in _DEFAULT_RET:
                    ev["ret"] = _DEFAULT_RET[name]
                raise
            else:
                try:
                    _result(name, ev, res)
                except Exception as e:
                    ev["recorder"] = "%s: %s" % (type(e).__name__, e)
                    if name in _DEFAULT_RET:
                        ev.setdefault("ret", _DEFAULT_RET[name])
                return res
            finally:
                _in_call[0] -= 1
                ev["muts"] = _muts[0]
                _events.append(ev)
                _tls.depth = 0

    wrapper.__name__ = name
    wrapper.__doc__ = getattr(orig, "__doc__", None)
    wrapper.__wrapped_by_verif__ = True
    setattr(cls, name, wrapper)


# ---- argument keys (C04): every FunctionReferenceWithArguments the tests build ------------------------------
_argrecs = []
_argseen = set()
_outside = {}


class _Outside(Exception):
    """a value outside the documented argument domain: the case is not recorded"""


def _spec_of(v):
    from twosigma.memento.reference import FunctionReference
    if v is None:
        return {"t": "none"}
    if type(v) is bool:
        return {"t": "bool", "v": v}
    if type(v) is int:
        return {"t": "int", "v": str(v)}
    if type(v) is float:
        return {"t": "float", "v": repr(v)}
    if type(v) is str:
        return {"t": "str", "v": v}
    if type(v) is datetime.datetime:
        off = v.utcoffset()
        if off is not None and off.total_seconds() % 60:
            raise _Outside("offset")
        return {"t": "datetime", "v": v.isoformat()}
    if type(v) is datetime.date:
        return {"t": "date", "v": v.isoformat()}
    if type(v) is list:
        return {"t": "list", "v": [_spec_of(x) for x in v]}
    if type(v) is dict:
        if not all(type(k) is str for k in v):
            raise _Outside("key")
        return {"t": "dict", "v": [[k, _spec_of(x)] for k, x in v.items()]}
    from twosigma.memento.types import MementoFunctionType
    if isinstance(v, MementoFunctionType):
        v = v.fn_reference()
    if isinstance(v, FunctionReference):
        return {"t": "fnref", "qn": v.qualified_name, "pargs": [_spec_of(x) for x in (v.partial_args or ())],
                "pkw": [[k, _spec_of(x)] for k, x in (v.partial_kwargs or {}).items()],
                "params": list(v.parameter_names or [])}
    raise _Outside(type(v).__name__)


def _record_args(fra):
    try:
        ref = fra.fn_reference
        rec = {"qn": ref.qualified_name, "params": list(ref.parameter_names or []),
               "pargs": [_spec_of(x) for x in (ref.partial_args or ())],
               "pkw": [[k, _spec_of(x)] for k, x in (ref.partial_kwargs or {}).items()],
               "args": [_spec_of(x) for x in fra.args],
               "kw": [[k, _spec_of(x)] for k, x in fra.kwargs.items()],
               "ctx": [[k, _spec_of(x)] for k, x in (fra.context_args or {}).items()],
               "hash": fra.arg_hash}
    except _Outside as e:
        _argrecs.append(None)
        _outside[str(e)] = _outside.get(str(e), 0) + 1
        return
    k = json.dumps(rec, sort_keys=True)
    if k not in _argseen:
        _argseen.add(k)
        rec["test"] = _cur_test[0]
        _argrecs.append(rec)


def _install_args():
    from twosigma.memento.reference import FunctionReferenceWithArguments
    orig = FunctionReferenceWithArguments.__init__
    if getattr(orig, "__wrapped_by_verif__", False):
        return

    def __init__(self, *a, **kw):
        orig(self, *a, **kw)
        try:
            with _lock:
                _record_args(self)
        except Exception as e:
            _argrecs.append({"recorder_error": "%s: %s" % (type(e).__name__, e)})

    __init__.__wrapped_by_verif__ = True
    FunctionReferenceWithArguments.__init__ = __init__


# ---- the metadata codec (C11): every memento the tests encode ---------------------------------------------------
_memrecs = []
_memseen = set()


def _fn_spec(ref):
    return {"qn": ref.qualified_name, "params": list(ref.parameter_names or []),
            "pargs": [_spec_of(x) for x in (ref.partial_args or ())],
            "pkw": [[k, _spec_of(x)] for k, x in (ref.partial_kwargs or {}).items()]}


def _fwa_spec(f):
    return {"fn": _fn_spec(f.fn_reference), "args": [_spec_of(x) for x in f.args],
            "kw": [[k, _spec_of(x)] for k, x in f.kwargs.items()],
            "ctx": [[k, _spec_of(x)] for k, x in (f.context_args or {}).items()]}


def _same_fnref(a, b):
    return (a.qualified_name == b.qualified_name and typed_equal(list(a.partial_args or ()), list(b.partial_args or ()))
            and typed_equal(dict(a.partial_kwargs or {}), dict(b.partial_kwargs or {}))
            and list(a.parameter_names or []) == list(b.parameter_names or []))


def _same_fwa(a, b):
    return (_same_fnref(a.fn_reference, b.fn_reference) and typed_equal(list(a.args), list(b.args))
            and typed_equal(dict(a.kwargs), dict(b.kwargs)) and typed_equal(dict(a.context_args or {}), dict(b.context_args or {})))


def _strict_loads(text):
    def bad(c):
        raise ValueError("non-JSON constant " + c)
    return json.loads(text, parse_constant=bad)


def _record_memento(codec, mem, encoded):
    if type(mem.time) is not datetime.datetime:
        raise _Outside("time:" + type(mem.time).__name__)
    im = mem.invocation_metadata
    runner = mem.runner or {}
    if not all(type(k) is str and type(v) is str for k, v in runner.items()):
        raise _Outside("runner")
    ck = mem.content_key
    spec = {"time": mem.time.isoformat(), "fwa": _fwa_spec(im.fn_reference_with_args),
            "invs": [_fwa_spec(x) for x in (im.invocations or [])],
            "res": [{"rtype": r.resource_type, "url": r.url, "version": r.version} for r in (im.resources or [])],
            "runtime": repr(im.runtime.total_seconds()), "rtype": im.result_type.name,
            "deps": [_fn_spec(d) for d in (mem.function_dependencies or [])],
            "runner": [[k, v] for k, v in runner.items()], "corr": mem.correlation_id,
            "ck": [ck.key, ck.version] if ck is not None else []}
    if not all(type(r["version"]) is str and type(r["url"]) is str for r in spec["res"]) or type(spec["corr"]) is not str:
        raise _Outside("field types")
    text = json.dumps(encoded)
    k = json.dumps(spec, sort_keys=True)
    if k in _memseen:
        return
    _memseen.add(k)
    out = {"m": spec, "text": text, "strict": False, "rtok": False, "hashok": False, "exc": "", "detail": "", "test": _cur_test[0]}
    try:
        try:
            doc = _strict_loads(text)
            out["strict"] = True
        except ValueError as e:
            doc = json.loads(text)
            out["detail"] = str(e)
        back = codec.decode_memento(doc)
        bim = back.invocation_metadata
        checks = {
            "time": (mem.time.tzinfo is None) == (back.time.tzinfo is None) and mem.time == back.time,
            "fwa": _same_fwa(im.fn_reference_with_args, bim.fn_reference_with_args),
            "invocations": len(im.invocations) == len(bim.invocations) and all(_same_fwa(x, y) for x, y in zip(im.invocations, bim.invocations)),
            "resources": list(im.resources) == list(bim.resources),
            "runtime": im.runtime == bim.runtime,
            "result_type": im.result_type == bim.result_type,
            "dependencies": len(mem.function_dependencies) == len(back.function_dependencies) and all(
                any(_same_fnref(x, y) for y in back.function_dependencies) for x in mem.function_dependencies),
            "runner": mem.runner == back.runner,
            "correlation_id": mem.correlation_id == back.correlation_id,
            "content_key": mem.content_key == back.content_key,
        }
        out["rtok"] = all(checks.values())
        if not out["rtok"]:
            out["detail"] = "differs: " + ",".join(k for k, v in checks.items() if not v)
        out["hashok"] = bim.fn_reference_with_args.arg_hash == im.fn_reference_with_args.arg_hash
    except Exception as e:
        out["exc"] = "%s: %s" % (type(e).__name__, str(e)[:200])
    _memrecs.append(out)


def _install_codec():
    from twosigma.memento.serialization import MementoCodec
    raw = MementoCodec.__dict__["encode_memento"]
    orig = raw.__func__ if isinstance(raw, (staticmethod, classmethod)) else raw
    if getattr(orig, "__wrapped_by_verif__", False):
        return
    is_cls = isinstance(raw, classmethod)

    def encode_memento(*a, **kw):
        res = orig(*a, **kw)
        if getattr(_tls, "incodec", 0):
            return res
        _tls.incodec = 1
        try:
            with _lock:
                mem = (a[1] if is_cls else a[0]) if a else kw.get("memento")
                try:
                    _record_memento(MementoCodec, mem, res)
                except _Outside as e:
                    _outside["memento:" + str(e)] = _outside.get("memento:" + str(e), 0) + 1
        except Exception as e:
            _memrecs.append({"recorder_error": "%s: %s" % (type(e).__name__, e)})
        finally:
            _tls.incodec = 0
        return res

    encode_memento.__wrapped_by_verif__ = True
    MementoCodec.encode_memento = classmethod(encode_memento) if is_cls else staticmethod(encode_memento)


# ---- qualified names (C12): every name the tests give a function -------------------------------------------------
_qns = {}


def _install_names():
    from twosigma.memento.reference import FunctionReference
    orig = FunctionReference.__init__
    if getattr(orig, "__wrapped_by_verif__", False):
        return

    def __init__(self, *a, **kw):
        orig(self, *a, **kw)
        try:
            qn = self.qualified_name
            if isinstance(qn, str) and qn not in _qns:
                _qns[qn] = _cur_test[0]
        except Exception:
            pass

    __init__.__wrapped_by_verif__ = True
    FunctionReference.__init__ = __init__


def _parse_events():
    from twosigma.memento.reference import FunctionReference
    out = []
    for qn, test in _qns.items():
        ev = {"op": "Parse", "name": list(qn), "cluster": [], "module": [], "function": [], "hasver": False, "version": [],
              "exc": "", "qn": qn, "test": test}
        try:
            parts = FunctionReference.parse_qualified_name(qn)
            ev["cluster"] = list(parts["cluster"] or "")
            ev["module"] = list(parts["module"] or "")
            ev["function"] = list(parts["function"] or "")
            ev["hasver"] = parts["version"] is not None
            ev["version"] = list(parts["version"] or "")
        except Exception as e:
            ev["exc"] = "%s: %s" % (type(e).__name__, str(e)[:120])
        out.append(ev)
    return out


def install():
    _install_args()
    _install_codec()
    _install_names()
    from twosigma.memento.storage_base import StorageBackendBase
    from twosigma.memento.storage_memory import MemoryStorageBackend
    from twosigma.memento.storage_null import NullStorageBackend
    from twosigma.memento.storage_filesystem import FilesystemStorageBackend
    for cls in (StorageBackendBase, FilesystemStorageBackend, MemoryStorageBackend, NullStorageBackend):
        for name in METHODS:
            f = cls.__dict__.get(name)
            if f is not None and callable(f) and not getattr(f, "__wrapped_by_verif__", False):
                _wrap(cls, name)
    sys.addaudithook(_audit)


def dump():
    out = os.environ["VERIF_REC_OUT"]
    doc = {"events": _events,
           "stores": [{"id": s["id"], "kind": s["kind"], "cache": s["cache"], "roots": s["roots"]} for s in _stores.values()],
           "mementos": _memrecs, "names": _parse_events(),
           "args": [r for r in _argrecs if r is not None], "args_outside_domain": dict(_outside),
           "counts": {"values": len(_values), "functions": len(_fid.t), "mementos": len(_mid.t)}}
    with open(out, "w") as f:
        json.dump(doc, f)


# ---- pytest hooks -----------------------------------------------------------------------------
def pytest_configure(config):
    if ON:
        install()


def pytest_runtest_setup(item):
    _cur_test[0] = item.nodeid


def pytest_runtest_teardown(item):
    _cur_test[0] = item.nodeid + "::teardown"


def pytest_sessionfinish(session, exitstatus):
    if ON:
        dump()
