"""Memento functions used by the concurrency scenarios (C09)."""
import twosigma.memento as m
from verif_side import log


def _thread():
    """index (from 1) of the managed thread the scheduler is running, 0 outside the scheduler"""
    try:
        import verif_sched
        me = getattr(verif_sched._current, "m", None)
        return (me.idx + 1) if me is not None else 0
    except Exception:
        return 0


def value_of(name, a):
    if name == "tf":
        return bytes([65 + a % 20]) * (60 * a + 7)
    if name == "tg":
        return [len(value_of("tf", a)), a]
    if name == "th":
        return value_of("tf", a)[:5] + value_of("tf", a + 1)[:5]
    if name == "tw":
        return sum(len(value_of("tf", x)) for x in range(20 + a, 20 + a + WIDE))
    raise KeyError(name)


@m.memento_function(cluster="vt", version="1")
def tf(a):
    log("Body", "tf", a, _thread())
    if a == 13:
        raise ValueError("unlucky %d" % a)
    return value_of("tf", a)


@m.memento_function(cluster="vt", version="1")
def tg(a):
    log("Body", "tg", a)
    return [len(tf(a)), a]


@m.memento_function(cluster="vt", version="1")
def th(a):
    log("Body", "th", a)
    r = tf.call_batch([{"a": a}, {"a": a + 1}])
    return r[0][:5] + r[1][:5]


WIDE = 140


@m.memento_function(cluster="vt", version="1")
def tw(a):
    """a long body: many distinct invocations happen while this one is in progress"""
    log("Body", "tw", a)
    return sum(len(x) for x in tf.map_over_range(a=range(20 + a, 20 + a + WIDE)).values())


FNS = {"tf": tf, "tg": tg, "th": th, "tw": tw}


def needed_keys(call):
    """All (fn, arg) keys whose body may have to run for this call."""
    name, a = call
    if name == "tf":
        return [("tf", a)]
    if name == "tg":
        return [("tg", a), ("tf", a)]
    if name == "th":
        return [("th", a), ("tf", a), ("tf", a + 1)]
    if name == "tw":
        return [("tw", a)] + [("tf", x) for x in range(20 + a, 20 + a + WIDE)]
    raise KeyError(name)
