"""Merge chains of partition-returning memento functions (C17).  CHAIN is set by the driver:
a list of levels {"own": [key ids], "kind": "mem"|"disk"}; level i (1-based) merges onto level i-1."""
import twosigma.memento as m
from twosigma.memento.partition import InMemoryPartition
from twosigma.memento.storage_filesystem import OnDiskPartition
from verif_side import log

CHAIN = []
KEYNAMES = {1: "a", 2: "b", 3: "c", 4: "d"}


def value(k, level):
    # values of different kinds per level, all carrying (key, level)
    if level % 3 == 1:
        return "v:%d:%d" % (k, level)
    if level % 3 == 2:
        return [k, level]
    return {"k": k, "level": level}


def untag(v, k=0):
    if v is None:
        return [k, 0]
    if isinstance(v, str):
        _, k, lv = v.split(":")
        return [int(k), int(lv)]
    if isinstance(v, list):
        return [v[0], v[1]]
    return [v["k"], v["level"]]


def _build(level, parent):
    spec = CHAIN[level - 1]
    if spec["kind"] == "pass" and parent is not None:
        return parent            # the function hands on, unchanged, the partition another function returned
    if spec["kind"] == "disk":
        p = OnDiskPartition()
        for k in spec["own"]:
            p[KEYNAMES[k]] = None if k in spec.get("nul", ()) else value(k, level)
    else:
        own = {KEYNAMES[k]: (None if k in spec.get("nul", ()) else value(k, level)) for k in spec["own"]}
        if spec.get("dd"):          # built over a defaultdict, the way the module's own docstring example builds one
            import collections
            own = collections.defaultdict(list, own)
        p = InMemoryPartition(own)
    if parent is not None:
        p._merge_parent = parent
    return p


@m.memento_function(cluster="vp", version="1")
def p1():
    log("Body", "p", 1)
    return _build(1, None)


def _parent(level):
    """the partition level merges onto: CHAIN[level-1]["par"] if given (0: none), else the level below"""
    par = CHAIN[level - 1].get("par", level - 1)
    return LEVELS[par]() if par else None


@m.memento_function(cluster="vp", version="1")
def p2():
    log("Body", "p", 2)
    return _build(2, _parent(2))


@m.memento_function(cluster="vp", version="1")
def p3():
    log("Body", "p", 3)
    return _build(3, _parent(3))


@m.memento_function(cluster="vp", version="1")
def p4():
    log("Body", "p", 4)
    return _build(4, _parent(4))


LEVELS = {1: p1, 2: p2, 3: p3, 4: p4}
