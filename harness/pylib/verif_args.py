"""Functions with the signatures used by the argument-key check (C04)."""
import twosigma.memento as m
from verif_side import log


@m.memento_function(cluster="va", version="1")
def s1(a):
    log("Body", "s1", {"a": a})
    return 1


@m.memento_function(cluster="va", version="1")
def s2(a, b):
    log("Body", "s2", {"a": a, "b": b})
    return 2


@m.memento_function(cluster="va", version="1")
def s3(a, b=5, *, k=None):
    log("Body", "s3", {"a": a, "b": b, "k": k})
    return 3


@m.memento_function(cluster="va", version="1")
def s4(x, y, z=1):
    log("Body", "s4", {"x": x, "y": y, "z": z})
    return 4


@m.memento_function(cluster="va", version="7")
def target(p, q=2):
    return [p, q]


# a three-level chain: context arguments given to the call at the top key the calls beneath it too
@m.memento_function(cluster="va", version="1")
def leaf(a):
    log("Body", "leaf", {"a": a})
    return ["leaf", 1]


@m.memento_function(cluster="va", version="1")
def mid(a):
    log("Body", "mid", {"a": a})
    return ["mid", leaf(a)]


@m.memento_function(cluster="va", version="1")
def top(a):
    log("Body", "top", {"a": a})
    return ["top", mid(a)]


SIGS = {
    "s1": (s1, ["a"], [], {}),
    "s2": (s2, ["a", "b"], [], {}),
    "s3": (s3, ["a", "b", "k"], ["k"], {"b": 5, "k": None}),
    "s4": (s4, ["x", "y", "z"], [], {"z": 1}),
}
