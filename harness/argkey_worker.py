"""C04 worker: one job = one group (signature + binding) with equivalent call presentations and
type-/context-different variants.  Returns the argument hash the implementation computes for every
presentation and what the calls did."""
import datetime
import json
import math
import os
import sys

import twosigma.memento as m
from twosigma.memento.configuration import ConfigurationRepository, Environment, FunctionCluster
from twosigma.memento.storage_memory import MemoryStorageBackend

import verif_args
import verif_side


def build(s):
    t = s["t"]
    if t == "none":
        return None
    if t == "bool":
        return bool(s["v"])
    if t == "int":
        return int(s["v"])
    if t == "float":
        return float(s["v"])
    if t == "str":
        return s["v"]
    if t == "date":
        return datetime.date.fromisoformat(s["v"])
    if t == "datetime":
        return datetime.datetime.fromisoformat(s["v"])
    if t == "list":
        return [build(x) for x in s["v"]]
    if t == "dict":
        return {k: build(v) for k, v in s["v"]}
    if t == "fnref" and s.get("ext"):
        # a reference to a function this process cannot resolve (a module that is not there): an external stub that
        # carries the recorded parameter names
        from twosigma.memento.reference import FunctionReference
        ref = FunctionReference.from_qualified_name(
            "va::gone.module:helper#9", partial_args=tuple(build(x) for x in s.get("pargs", [])) or None,
            partial_kwargs={k: build(v) for k, v in s.get("pkw", [])} or None, parameter_names=["p", "q"], external=True)
        return ref.memento_fn
    if t == "fnref":
        fn = verif_args.target
        if s.get("pargs") or s.get("pkw"):
            fn = fn.partial(*[build(x) for x in s.get("pargs", [])], **{k: build(v) for k, v in s.get("pkw", [])})
        return fn
    raise ValueError(t)


def typed_equal(a, b):
    if callable(getattr(a, "fn_reference", None)) or callable(getattr(b, "fn_reference", None)):
        # memento functions, resolvable or external stubs: equal iff they name the same function with the same bound arguments
        # (and the same recorded parameter names)
        try:
            ra, rb = a.fn_reference(), b.fn_reference()
            return (ra.qualified_name == rb.qualified_name and typed_equal(list(ra.partial_args or ()), list(rb.partial_args or ()))
                    and typed_equal(dict(ra.partial_kwargs or {}), dict(rb.partial_kwargs or {}))
                    and list(ra.parameter_names or []) == list(rb.parameter_names or []))
        except Exception:
            return False
    if type(a) is not type(b):
        return False
    if isinstance(a, float):
        return (math.isnan(a) and math.isnan(b)) or (a == b and math.copysign(1, a) == math.copysign(1, b))
    if isinstance(a, datetime.datetime):
        return a == b and (a.tzinfo is None) == (b.tzinfo is None) and a.utcoffset() == b.utcoffset()
    if isinstance(a, list):
        return len(a) == len(b) and all(typed_equal(x, y) for x, y in zip(a, b))
    if isinstance(a, dict):
        return set(a.keys()) == set(b.keys()) and all(typed_equal(a[k], b[k]) for k in a)
    return a == b


def target_fn(sig, p):
    fn = verif_args.SIGS[sig][0]
    if p.get("pargs") or p.get("pkw"):
        fn = fn.partial(*[build(x) for x in p.get("pargs", [])], **{k: build(v) for k, v in p.get("pkw", [])})
    ctx = {k: build(v) for k, v in p.get("ctx", [])}
    if ctx:
        fn = fn.with_context_args(ctx)
    return fn, ctx


def run_job(job):
    Environment.set(Environment(name="verif", repos=[ConfigurationRepository(
        name="r", clusters={"va": FunctionCluster(name="va", storage=MemoryStorageBackend())})]))
    sig = job["sig"]
    fn0, params, kwonly, defaults = verif_args.SIGS[sig]
    expected = dict(defaults)
    for k, v in job["binding"]:
        expected[k] = build(v)
    out = {"id": job["id"], "hashes": [], "ev": []}
    for p in job["presentations"]:
        rec = {"case": p["case"], "hash": "", "exc": ""}
        try:
            fn, ctx = target_fn(sig, p)
            args = [build(x) for x in p.get("args", [])]
            kwargs = {k: build(v) for k, v in p.get("kw", [])}
            ref = fn.fn_reference().with_args(*args, _memento_context_args=(ctx or None), **kwargs)
            rec["hash"] = ref.arg_hash
        except Exception as e:
            rec["exc"] = "%s: %s" % (type(e).__name__, str(e)[:150])
        out["hashes"].append(rec)
    for kind, plist in (("Call", job["presentations"]), ("Variant", job.get("variants", []))):
        for p in plist:
            verif_side.log.reset()
            ev = {"op": kind, "pres": p.get("case", 0), "what": p.get("what", ""), "exc": "", "n": 0, "recvok": True}
            try:
                fn, ctx = target_fn(sig, p)
                args = [build(x) for x in p.get("args", [])]
                kwargs = {k: build(v) for k, v in p.get("kw", [])}
                if p.get("via") == "batch":
                    res = fn.call_batch([kwargs])
                    if res and isinstance(res[0], Exception):
                        raise res[0]
                else:
                    fn(*args, **kwargs)
            except Exception as e:
                ev["exc"] = "%s: %s" % (type(e).__name__, str(e)[:150])
            bodies = [it for it in verif_side.log.take() if it[0] == "Body"]
            ev["n"] = len(bodies)
            if kind == "Call" and bodies:
                got = bodies[0][2]
                ev["recvok"] = set(got.keys()) == set(expected.keys()) and all(typed_equal(got[k], expected[k]) for k in expected)
                if not ev["recvok"]:
                    ev["detail"] = ("got %r expected %r" % (got, expected))[:300]
            out["ev"].append(ev)
    for step in job.get("chain", []):
        # nested calls: a call of top / mid / leaf under one of two context dictionaries (or none); how often the body of leaf ran
        verif_side.log.reset()
        ev = {"op": "Nested", "ctx": step["ctx"], "at": step["at"], "n": 0, "exc": "", "pres": 0, "what": "", "recvok": True}
        try:
            fn = {"top": verif_args.top, "mid": verif_args.mid, "leaf": verif_args.leaf}[step["at"]]
            if step["ctx"] != "none":
                fn = fn.with_context_args({"k": build(job["chain_ctx"][step["ctx"]])})
            fn(build(job["chain_arg"]))
        except Exception as e:
            ev["exc"] = "%s: %s" % (type(e).__name__, str(e)[:150])
        ev["n"] = len([it for it in verif_side.log.take() if it[0] == "Body" and it[1] == "leaf"])
        out["ev"].append(ev)
    return out


def main():
    with open(sys.argv[1]) as f:
        doc = json.load(f)
    res = {"traces": [run_job(j) for j in doc["jobs"]]}
    with open(sys.argv[2], "w") as f:
        json.dump(res, f)


if __name__ == "__main__":
    main()
