"""Storage-level conformance driver (runs under /venv/bin/python, imports memento from /repo).

Executes abstract operation sequences ("behaviours": from TLC simulation of spec/Store.tla, or
generated randomly) against real storage backends and records one event per operation in the
vocabulary of the property monitors DictMon / LruMon / CasMon / RoMon.

stdin/argv protocol:  store_worker.py <in.json> <out.json>
in : {"jobs": [{"cfg": {...}, "ops": [op, ...]}, ...]}
out: {"traces": [{"cfg": ..., "ev": [...], "notes": [...]}, ...]}
"""
import datetime
import gc
import hashlib
import json
import os
import pickle
import shutil
import sys
import tempfile

import numpy as np

import twosigma.memento as m
from twosigma.memento.metadata import InvocationMetadata, Memento, ResultType
from twosigma.memento.reference import FunctionReferenceWithArgHash
from twosigma.memento.storage_filesystem import FilesystemStorageBackend
from twosigma.memento.storage_memory import MemoryStorageBackend
from twosigma.memento.storage_null import NullStorageBackend

import verif_fns

# ------------------------------------------------------------------------------------------
# filesystem observation: audit hook counts reads of data objects and mutating operations
_watch = {"on": False, "roots": (), "reads": 0, "muts": 0, "mutlog": []}
_MUT_EVENTS = {"os.mkdir", "os.rename", "os.remove", "os.rmdir", "os.unlink", "shutil.rmtree",
               "os.truncate", "os.chmod", "os.symlink", "os.link", "os.utime", "os.replace"}


def _audit(event, args):
    w = _watch
    if not w["on"]:
        return
    if event == "open":
        path, mode, flags = args
        try:
            p = os.fsdecode(path)
        except TypeError:
            return
        if not any(p.startswith(r) for r in w["roots"]):
            return
        writing = (flags & (os.O_WRONLY | os.O_RDWR | os.O_CREAT | os.O_TRUNC | os.O_APPEND)) != 0
        if writing:
            w["muts"] += 1
            w["mutlog"].append("open_w " + p)
        elif "/.versions/" in p and ".memento.json" not in p and ".metadata." not in p:
            w["reads"] += 1
    elif event in _MUT_EVENTS:
        p = args[0] if args else ""
        try:
            p = os.fsdecode(p)
        except TypeError:
            p = str(p)
        if any(p.startswith(r) for r in w["roots"]):
            w["muts"] += 1
            w["mutlog"].append(event + " " + p)


sys.addaudithook(_audit)


class Watch:
    def __init__(self, roots):
        self.roots = tuple(roots)

    def __enter__(self):
        _watch.update(on=True, roots=self.roots, reads=0, muts=0, mutlog=[])
        return self

    def __exit__(self, *a):
        _watch["on"] = False
        self.reads = _watch["reads"]
        self.muts = _watch["muts"]
        self.mutlog = list(_watch["mutlog"])


def tree_digest(roots):
    h = hashlib.sha256()
    for root in roots:
        for dp, dn, fn in sorted(os.walk(root)):
            dn.sort()
            h.update(("D " + dp + "\n").encode())
            for f in sorted(fn):
                p = os.path.join(dp, f)
                h.update(("F " + p + "\n").encode())
                try:
                    with open(p, "rb") as fh:
                        h.update(hashlib.sha256(fh.read()).digest())
                except OSError:
                    h.update(b"unreadable")
    return h.hexdigest()


# ------------------------------------------------------------------------------------------
# values
def make_value(spec):
    """spec: {"t": "bytes"|"nd"|"none"|"str"|"int", "size": target sys.getsizeof, "fill": int}"""
    t = spec["t"]
    if t == "none":
        return None
    fill = spec.get("fill", 0)
    if t == "bytes":
        n = max(0, spec["size"] - sys.getsizeof(b""))
        return bytes([fill % 251]) * n
    if t == "nd":
        base = sys.getsizeof(np.zeros(0, dtype=np.int8))
        n = max(0, spec["size"] - base)
        return np.full(n, fill % 120, dtype=np.int8)
    if t == "frame":
        # a table whose rows get lighter along the row order (a log sorted by message length, longest first): far bigger than
        # any budget used here, whatever sample of its rows a size estimate looks at
        import pandas as pd
        rows = int(spec.get("rows", 160))
        heavy = (rows * 2) // 5
        return pd.DataFrame({"s": [chr(97 + fill % 26) * (1500 if i < heavy else 3) for i in range(rows)], "n": list(range(rows))})
    if t == "str":
        n = max(0, spec["size"] - sys.getsizeof(""))
        return chr(97 + fill % 26) * n
    if t == "int":
        return fill
    raise ValueError(t)


def true_size(v):
    """The harness's own account of what a value occupies (independent of the cache's
    estimator): for arrays the header plus the data, whoever owns the buffer."""
    if isinstance(v, np.ndarray):
        return sys.getsizeof(np.zeros(0, dtype=v.dtype)) + int(v.nbytes)
    if type(v).__name__ == "DataFrame":
        return int(v.memory_usage(deep=True).sum())
    return sys.getsizeof(v)


def digest(v):
    if v is None:
        return "None"
    if isinstance(v, np.ndarray):
        return "nd:" + str(v.dtype) + ":" + hashlib.sha256(v.tobytes()).hexdigest()
    if isinstance(v, BaseException):
        return "exc:" + type(v).__name__ + ":" + str(v)
    if type(v).__name__ == "DataFrame":
        return "frame:" + hashlib.sha256(v.to_csv().encode()).hexdigest()
    return type(v).__name__ + ":" + hashlib.sha256(pickle.dumps(v, protocol=4)).hexdigest()


def rtype_of(v):
    return ResultType.from_object(v)


# ------------------------------------------------------------------------------------------
class Interner:
    def __init__(self, start=1):
        self.t = {}
        self.start = start

    def __call__(self, x):
        if x not in self.t:
            self.t[x] = len(self.t) + self.start
        return self.t[x]


def fn_ref(i):
    return verif_fns.FNS[i].fn_reference()


def fwa(i, h):
    return fn_ref(i).with_args(a=h)


class Driver:
    def __init__(self, cfg, base):
        self.cfg = cfg
        self.base = base
        self.data = os.path.join(base, "data")
        self.meta = os.path.join(base, "meta") if cfg.get("sepmeta") else self.data
        self.roots = [self.data + os.sep] if not cfg.get("sepmeta") else [self.data + os.sep, self.meta + os.sep]
        self.kind = cfg["kind"]
        self.budget = cfg.get("budget", 0)
        self.backend = self.open_backend(read_only=None)
        self.vid = Interner()
        self.ckid = Interner()
        self.fnames = {fn_ref(i).qualified_name: i for i in verif_fns.FNS}
        self.extra_fn = Interner(start=100)
        self.next_mid = 1
        self.mementos = {}    # mid -> Memento as handed to memoize (content key filled in)
        self.current = {}     # (f,h) -> Memento last memoized
        self.held = {}        # (f,h) -> objects the "client" still references
        self.events = []
        self.notes = []
        self.ro_mode = False

    def open_backend(self, read_only, with_cache=True, via_config=False):
        k = self.kind
        if k == "memory":
            return MemoryStorageBackend(read_only=read_only)
        if k == "null":
            return NullStorageBackend()
        mb = (self.budget / 1048576.0) if (self.budget and with_cache) else None
        data, meta = self.data, self.meta
        if self.cfg.get("respell") and with_cache:
            # every backend object reaches the same store directory under another spelling of its path (a symbolic link, a
            # detour through ..): the same store all the same
            self.nopen = getattr(self, "nopen", -1) + 1
            if self.nopen % 3 == 1:
                alias = self.base.rstrip(os.sep) + "_alias"
                if not os.path.islink(alias):
                    os.symlink(self.base, alias)
                data, meta = data.replace(self.base, alias, 1), meta.replace(self.base, alias, 1)
            elif self.nopen % 3 == 2:
                data = os.path.join(self.base, "data", "..", "data")
                meta = os.path.join(self.base, "meta", "..", "meta") if self.cfg.get("sepmeta") else data
        kw = dict(path=data)
        if self.cfg.get("sepmeta"):
            kw["metadata_path"] = meta
        if via_config == "arg_over_config":      # the explicit argument against a configuration that says otherwise
            conf = dict(kw)
            conf["type"] = "filesystem"
            conf["readonly"] = not bool(read_only)
            return FilesystemStorageBackend(config=conf, memory_cache_mb=mb, read_only=bool(read_only))
        if via_config:
            conf = dict(kw)
            conf["type"] = "filesystem"
            if read_only is not None:
                conf["readonly"] = read_only
            return FilesystemStorageBackend(config=conf, memory_cache_mb=mb)
        return FilesystemStorageBackend(memory_cache_mb=mb, read_only=read_only, **kw)

    # -- projections ---------------------------------------------------------------------
    def key_of_cache_key(self, ck):
        qn, _, ah = ck.rpartition("/")
        f = self.fnames.get(qn) or self.extra_fn(qn)
        return [f, self.hash_ids.get(ah, 0)]

    def proj_cache(self):
        mc = getattr(self.backend, "_memory_cache", None)
        if mc is None:
            return {"lru": [], "ent": [], "usage": 0}
        return {
            "lru": [self.key_of_cache_key(k) for k in list(mc.lru_deque)],
            "ent": [{"k": self.key_of_cache_key(k), "size": int(e.obj_size), "hasv": bool(e.has_value)}
                    for k, e in mc.cache.items()],
            "usage": int(mc.memory_usage),
        }

    def proj_cas(self):
        if self.kind != "fs":
            return [], []
        cas = []
        cdir = os.path.join(self.data, "c")
        if os.path.isdir(cdir):
            for name in sorted(os.listdir(cdir)):
                if not name.endswith(".link"):
                    continue
                sha = name[:-5]
                try:
                    with open(os.path.join(cdir, name)) as f:
                        target = f.read()
                    with open(target, "rb") as f:
                        ok = hashlib.sha256(f.read()).hexdigest() == sha
                except OSError:
                    ok = False
                vdir = os.path.join(cdir, ".versions")
                nver = 0
                if os.path.isdir(vdir):
                    nver = sum(1 for u in os.listdir(vdir) if os.path.exists(os.path.join(vdir, u, sha)))
                cas.append({"ck": self.ckid("c/" + sha), "hashok": ok, "nver": nver})
        mem = []
        reader = self.open_backend(read_only=True, with_cache=False)
        current = {self.mid_of(m_): k for k, m_ in self.current.items()}
        for mid, mem_obj in self.mementos.items():
            ck = mem_obj.content_key
            rec = {"mid": mid, "ck": 0, "keyok": True, "dig": 0}
            if ck is not None:
                rec["ck"] = self.ckid("%s#%s" % (ck.key, ck.version))
            try:
                if mid in current:
                    # the memento as another process finds it: decoded from the store, not the object handed to memoize
                    decoded = reader.get_mementos(self.keyrefs([current[mid]]))[0]
                    if decoded is not None and self.mid_of(decoded) == mid:
                        mem_obj = decoded
                val = reader.read_result(mem_obj)
                rec["dig"] = self.vid(digest(val))
                if ck is not None and ck.key.startswith("c/"):
                    # the bytes stored under the versioned key must hash to the key
                    # noinspection PyProtectedMember
                    p = reader._data_source._get_path_versioned(ck)
                    with open(p, "rb") as f:
                        rec["keyok"] = ("c/" + hashlib.sha256(f.read()).hexdigest()) == ck.key
            except Exception:  # unreadable: dig stays 0 (only matters while the memento is live)
                rec["dig"] = 0
            mem.append(rec)
        return cas, mem

    # -- operations ----------------------------------------------------------------------
    def new_memento(self, f, h, value, mid):
        ref = fwa(f, h)
        now = datetime.datetime.now(datetime.timezone.utc)
        return Memento(
            time=now,
            invocation_metadata=InvocationMetadata(
                runtime=datetime.timedelta(seconds=1.0), fn_reference_with_args=ref,
                result_type=rtype_of(value), invocations=[], resources=[]),
            function_dependencies={ref.fn_reference}, runner={}, correlation_id="m%d" % mid,
            content_key=None)

    @staticmethod
    def mid_of(memento):
        if memento is None:
            return 0
        cid = memento.correlation_id or ""
        return int(cid[1:]) if cid.startswith("m") and cid[1:].isdigit() else -1

    def keyrefs(self, keys):
        return [FunctionReferenceWithArgHash(fn_ref(f), fwa(f, h).arg_hash) for f, h in keys]

    def run(self, ops):
        self.hash_ids = {}
        for f in verif_fns.FNS:
            for h in range(1, 6):
                self.hash_ids[fwa(f, h).arg_hash] = h
        for op in ops:
            self.step(op)
        return {"cfg": self.cfg, "ev": self.events, "notes": self.notes}

    def step(self, op):
        name = op["op"]
        ev = {"op": name, "exc": ""}
        b = self.backend
        if name == "Gc":
            self.held.pop((op["f"], op["h"]), None)
            gc.collect()
            return
        if name == "ReadResult" and (op["f"], op["h"]) not in self.current:
            return               # nothing to read through: the call has no memento (precondition of read_result)
        if name == "Reopen" and self.kind in ("memory", "null"):
            return               # nothing persistent to open again
        if name == "Reopen":     # a new backend object on the same store (cold cache)
            self.held.clear()
            gc.collect()
            if "ro" in op:
                self.ro_mode = bool(op["ro"])
            self.backend = self.open_backend(read_only=(True if self.ro_mode else None),
                                             via_config=self.cfg.get("ro_via_config"))
            ev = {"op": "Reopen", "exc": "", "ro": self.ro_mode, "reads": 0, "muts": 0,
                  "same": True, "proj": self.proj_cache(), "cas": [], "mem": []}
            if self.cfg.get("cas"):
                ev["cas"], ev["mem"] = self.proj_cas()
            self.events.append(ev)
            return
        for fld in ("f", "h", "mk", "limit", "ovr"):
            if fld in op:
                ev[fld] = op[fld]
        if "keys" in op:
            ev["keys"] = [list(k) for k in op["keys"]]
        pre_digest = tree_digest(self.roots) if self.cfg.get("track_tree") else None
        np.random.seed(20240301)         # (the cache's size estimate of a table samples rows at random: the same sample every time)
        with Watch(self.roots) as w:
            try:
                if name == "Memoize":
                    value = make_value(op["value"])
                    mid = self.next_mid
                    self.next_mid += 1
                    mem = self.new_memento(op["f"], op["h"], value, mid)
                    ev.update(mid=mid, v=self.vid(digest(value)), size=true_size(value),
                              ovr=op.get("ovr", 0))
                    self.held.setdefault((op["f"], op["h"]), []).append(value)
                    # (override key 2 contains '#', the separator of the versioned-key text `key#version`)
                    ovr = ({1: "ovr/k1", 2: "ovr/run#2/k"}.get(op["ovr"], "ovr/k%d" % op["ovr"])) if op.get("ovr") else None
                    b.memoize(ovr, mem, value)
                    if not b.read_only:
                        self.mementos[mid] = mem
                        self.current[(op["f"], op["h"])] = mem
                elif name == "GetMementos":
                    res = b.get_mementos(self.keyrefs(op["keys"]))
                    ev["ret"] = [self.mid_of(x) for x in res]
                elif name == "ReadResult":
                    mem = self.current.get((op["f"], op["h"]))
                    if mem is None:
                        mem = b.get_mementos(self.keyrefs([(op["f"], op["h"])]))[0]
                    ev["mid"] = self.mid_of(mem)
                    ev["cacheable"] = bool(self.budget)
                    ev["size"] = 0
                    ev["ret"] = 0
                    val = b.read_result(mem)
                    self.held.setdefault((op["f"], op["h"]), []).append(val)
                    ev["ret"] = self.vid(digest(val))
                    ev["size"] = true_size(val)
                elif name == "IsMemoized":
                    ev["ret"] = bool(b.is_memoized(fn_ref(op["f"]), fwa(op["f"], op["h"]).arg_hash))
                elif name == "IsAllMemoized":
                    ev["ret"] = bool(b.is_all_memoized([fwa(f, h) for f, h in op["keys"]]))
                elif name == "ForgetCall":
                    b.forget_call(self.keyrefs([(op["f"], op["h"])])[0])
                    if not b.read_only:
                        self.current.pop((op["f"], op["h"]), None)
                elif name == "ForgetFunction":
                    b.forget_function(fn_ref(op["f"]))
                    if not b.read_only:
                        for k in [k for k in self.current if k[0] == op["f"]]:
                            self.current.pop(k)
                elif name == "ForgetEverything":
                    b.forget_everything()
                    if not b.read_only:
                        self.current.clear()
                elif name == "ListFunctions":
                    res = b.list_functions()
                    ev["ret"] = sorted(self.fnames.get(x.qualified_name) or self.extra_fn(x.qualified_name)
                                       for x in (res or []))
                elif name == "ListMementos":
                    lim = op.get("limit", 0)
                    res = b.list_mementos(fn_ref(op["f"]), limit=(lim or None))
                    ev["ret"] = sorted(self.mid_of(x) for x in (res or []))
                elif name == "WriteMetadata":
                    ev["b"] = op["b"]
                    ev["wd"] = bool(op.get("wd"))
                    swck = None
                    if op.get("wd"):          # put_metadata(..., store_with_data=True): next to the result object
                        cur = self.current.get((op["f"], op["h"]))
                        swck = cur.content_key if cur is not None else None
                    b.write_metadata(self.keyrefs([(op["f"], op["h"])])[0], MKNAME.get(op["mk"], "mk%d" % op["mk"]),
                                     ("meta-bytes-%d" % op["b"]).encode(), store_with_content_key=swck)
                elif name == "ReadMetadata":
                    res = b.read_metadata(self.keyrefs([(op["f"], op["h"])])[0], MKNAME.get(op["mk"], "mk%d" % op["mk"]))
                    if res is None:
                        ev["ret"] = 0
                    else:
                        txt = bytes(res).decode()
                        ev["ret"] = int(txt.rsplit("-", 1)[1]) if txt.startswith("meta-bytes-") else -1
                else:
                    raise ValueError("unknown op " + name)
            except Exception as e:  # recorded, judged by the monitors
                ev["exc"] = type(e).__name__
                ev["excmsg"] = str(e)[:200]
                if name in ("GetMementos", "ListFunctions", "ListMementos") and "ret" not in ev:
                    ev["ret"] = []
                if name in ("IsMemoized", "IsAllMemoized") and "ret" not in ev:
                    ev["ret"] = False
                if name == "ReadMetadata" and "ret" not in ev:
                    ev["ret"] = 0
        ev["reads"] = w.reads
        ev["muts"] = w.muts
        if w.muts and self.cfg.get("track_tree"):
            ev["mutlog"] = w.mutlog[:5]
        ev["same"] = (tree_digest(self.roots) == pre_digest) if pre_digest is not None else True
        ev["proj"] = self.proj_cache()
        if self.cfg.get("cas"):
            ev["cas"], ev["mem"] = self.proj_cas()
        self.events.append(ev)


MKNAME = {3: ""}        # metadata key 3 is the empty string


def run_job(job):
    base = tempfile.mkdtemp(prefix="verif_store_")
    try:
        cfg = dict(job["cfg"])
        d = Driver(cfg, base)
        if job.get("pre"):          # pre-populate read-write, then reopen as requested
            d.run(job["pre"])
            pre_events = d.events
            d.events = []
            d.held.clear()
            gc.collect()
            if cfg.get("damage"):
                links = sorted(os.path.join(dp, f) for root in d.roots for dp, dn, fn in os.walk(root) for f in fn if f.endswith(".link"))
                if links:
                    victim = links[cfg["damage"] % len(links)]
                    with open(victim, "r+b") as fh:
                        fh.truncate(0 if cfg["damage"] % 2 else 40)
            if cfg.get("reopen_ro"):
                d.ro_mode = True
                d.backend = d.open_backend(read_only=True, via_config=cfg.get("ro_via_config"))
            cfg["pre"] = [e for e in pre_events if e["exc"] == "" and e["op"] in (
                "Memoize", "WriteMetadata", "ForgetCall", "ForgetFunction", "ForgetEverything")]
            d.cfg = cfg
            d.cfg["track_tree"] = True
        out = d.run(job["ops"])
        out["id"] = job.get("id")
        return out
    finally:
        shutil.rmtree(base, ignore_errors=True)
        if os.path.islink(base.rstrip(os.sep) + "_alias"):
            os.unlink(base.rstrip(os.sep) + "_alias")


def main():
    with open(sys.argv[1]) as f:
        doc = json.load(f)
    out = {"traces": [run_job(j) for j in doc["jobs"]]}
    with open(sys.argv[2], "w") as f:
        json.dump(out, f)


if __name__ == "__main__":
    main()
