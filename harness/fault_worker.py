"""C08 worker: filesystem fault injection around memoization.

A job is {"cfg": {"budget": 0|N}, "calls": [[fn, a], ...], "faults": [{"call": i, "op": k, "variant": v}]}
Calls are executed in order against one store.  Mutating filesystem operations under the store
root are numbered per call (1-based): mkdir, open-for-write, each write() on such a file,
rename/replace, remove/unlink, rmdir.  Variants:
  crash        the process dies before operation k  (for a write(): the file stays as it is: empty)
  crash_half   (write operations) half of the bytes are written, then the process dies
  enospc       operation k raises OSError(ENOSPC)   (open / mkdir / write)
  efbig_half   (write operations) half of the bytes are written, then OSError(EFBIG)
  crash_q3 / crash_most / efbig_most   like the _half variants with 3/4 of the bytes / all but the last byte
With cfg.buffered the files behave like buffered files whose data reaches the file system only when they
are flushed or closed: write() is not an operation; "close_w" is, and takes the write variants (crash =
the process dies before the flush: the file stays empty; enospc = the flush fails, nothing was written,
close() raises; the partial variants write a prefix first).
After a crash all in-memory state is dropped (new backend objects, mutex table, call stack) and
the remaining calls run in the "restarted process".
"""
import builtins
import errno
import hashlib
import io
import json
import os
import shutil
import sys
import tempfile

import twosigma.memento as m
from twosigma.memento import call_stack, runner_local
from twosigma.memento.configuration import ConfigurationRepository, Environment, FunctionCluster
from twosigma.memento.storage_filesystem import FilesystemStorageBackend

import verif_flt
import verif_side


class Crash(BaseException):
    """The process dies here."""


class Injector:
    def __init__(self):
        self.root = None
        self.on = False
        self.n = 0
        self.ops = []
        self.fault = None      # {"op": k, "variant": v}
        self.fired = False
        self.buffered = False
        self.trace = []        # every file-system step of the call, faultable or not: [kind, relative path]
        self.fired_at = None   # length of trace when the fault fired
        self.kill = None       # real-kill mode: called at a crash point, reports and ends the PROCESS (os._exit)

    def die(self):
        if self.kill is not None:
            self.kill()
        raise Crash()

    def arm(self, root, fault):
        self.root, self.on, self.n, self.ops, self.fault, self.fired = root, True, 0, [], fault, False
        self.trace, self.fired_at = [], None

    def note(self, kind, path):
        if self.on:
            self.trace.append([kind, os.path.relpath(os.fsdecode(path), self.root)])

    def disarm(self):
        self.on = False

    def under(self, p):
        try:
            p = os.fsdecode(p)
        except TypeError:
            return False
        return self.root is not None and os.path.abspath(p).startswith(self.root)

    def op(self, kind, path, is_write=False, data_len=0):
        """Called before a mutating operation.  Returns None, or ('half', exc) for partial writes."""
        if not self.on:
            return None
        self.n += 1
        self.ops.append("%s %s" % (kind, os.path.relpath(os.fsdecode(path), self.root)))
        f = self.fault
        if f is None or self.fired or f["op"] != self.n:
            self.trace.append([kind, os.path.relpath(os.fsdecode(path), self.root)])
            return None
        self.fired = True
        self.fired_at = len(self.trace)
        self.fired_kind = kind
        v = f["variant"]
        if v == "crash" and not (is_write and self.buffered):
            self.die()
        if v == "enospc" and not (is_write and self.buffered):
            raise OSError(errno.ENOSPC, "No space left on device (injected)")
        if is_write and self.buffered and v in ("crash", "enospc"):
            v = v + "_empty"
        frac = {"half": 0.5, "q3": 0.75, "most": -1}.get(v.split("_")[-1])
        if is_write and v.startswith("crash_") and frac:
            return (frac, Crash())
        if is_write and v.startswith("efbig_") and frac:
            return (frac, OSError(errno.EFBIG, "File too large (injected)"))
        if is_write and v == "crash_empty":
            return (0, Crash())
        if is_write and v == "enospc_empty":
            return (0, OSError(errno.ENOSPC, "No space left on device (injected)"))
        if v.startswith("crash"):
            self.die()
        raise OSError(errno.EFBIG, "File too large (injected)")


INJ = Injector()
_real_open = builtins.open
_real_io_open = io.open


def _cut(data, frac):
    n = len(data) - 1 if frac == -1 else int(len(data) * frac)
    return data[: max(0, n)]


class WriteProxy:
    def __init__(self, fh, path):
        self._fh = fh
        self._path = path
        self._buf = []          # buffered mode: data not yet handed to the file system
        self._closed = False

    def write(self, data):
        if INJ.buffered and INJ.on:
            self._buf.append(data)
            INJ.note("write", self._path)
            return len(data)
        act = INJ.op("write", self._path, is_write=True, data_len=len(data))
        if act is not None:
            self._fh.write(_cut(data, act[0]))
            self._fh.flush()
            if isinstance(act[1], Crash) and INJ.kill is not None:
                INJ.kill()
            raise act[1]
        return self._fh.write(data)

    def _drain(self, kind):
        if not self._buf:
            return
        data = self._buf[0][:0].join(self._buf)
        self._buf = []
        act = INJ.op(kind, self._path, is_write=True, data_len=len(data))
        if act is not None:
            self._fh.write(_cut(data, act[0]))
            self._fh.flush()
            if isinstance(act[1], Crash) and INJ.kill is not None:
                INJ.kill()
            raise act[1]
        self._fh.write(data)

    def flush(self):
        self._drain("flush_w")
        return self._fh.flush()

    def close(self):
        if self._closed:
            return
        self._closed = True
        try:
            if INJ.buffered and INJ.on:
                self._drain("close_w")
            else:
                INJ.note("close_w", self._path)
        finally:
            self._fh.close()

    def __enter__(self):
        return self

    def __exit__(self, *a):
        if a and a[0] is not None and issubclass(a[0], Crash):
            self._buf = []           # the process is gone: buffered data never reaches the file
            self._closed = True
            return self._fh.__exit__(*a)
        self.close()
        return False

    def __getattr__(self, name):
        return getattr(self._fh, name)

    def __iter__(self):
        return iter(self._fh)


def _open(file, mode="r", *args, **kwargs):
    writing = any(c in mode for c in "wax+")
    if writing and isinstance(file, (str, bytes, os.PathLike)) and INJ.on and INJ.under(file):
        INJ.op("open_w", file)
        return WriteProxy(_real_open(file, mode, *args, **kwargs), file)
    return _real_open(file, mode, *args, **kwargs)


def _audit(event, args):
    if not INJ.on:
        return
    if event in ("os.mkdir", "os.rename", "os.remove", "os.rmdir", "os.unlink", "shutil.rmtree", "os.replace"):
        p = args[0]
        if INJ.under(p):
            INJ.op(event, p)


sys.addaudithook(_audit)
builtins.open = _open
io.open = _open


def poisoned_content_keys(root):
    """content keys whose pointer is complete (names an existing file) but whose bytes do not hash to the key"""
    bad = []
    cdir = os.path.join(root, "c")
    if os.path.isdir(cdir):
        for name in sorted(os.listdir(cdir)):
            if not name.endswith(".link"):
                continue
            try:
                with _real_open(os.path.join(cdir, name)) as f:
                    target = f.read()
                if not target or not os.path.isfile(target):
                    continue                     # never completely written: the key does not exist
                with _real_open(target, "rb") as f:
                    if hashlib.sha256(f.read()).hexdigest() != name[:-5]:
                        bad.append(name[:12])
            except OSError:
                continue
    return bad


def restart(base, budget):
    mb = (budget / 1048576.0) if budget else None
    backend = FilesystemStorageBackend(path=os.path.join(base, "data"), memory_cache_mb=mb)
    Environment.set(Environment(name="verif", base_dir=base, repos=[ConfigurationRepository(
        name="r", clusters={"vf": FunctionCluster(name="vf", storage=backend)})]))
    runner_local._memento_fn_mutex.clear()
    call_stack._call_stack_thread_local.call_stack = call_stack.CallStack()
    return backend


def record(job, root, name, a, res, exc, crashed, fault):
    """what one call of the job is reported as (in-process: after the call; real kill: by the dying process)"""
    trace = {"trace": list(INJ.trace), "fired_at": INJ.fired_at,
             "fired_kind": getattr(INJ, "fired_kind", "") if INJ.fired_at is not None else ""}
    bodies = {}
    for item in verif_side.log.take():
        if item[0] == "Body":
            k = "%s/%s" % (item[1], item[2])
            bodies[k] = bodies.get(k, 0) + 1
    fired = bool(fault) and INJ.fired
    if name in ("forget", "list"):
        ev = {"op": "Aux", "what": name, "exc": "" if exc is None else type(exc).__name__,
              "msg": "" if exc is None else str(exc)[:150], "faulted": fired, "crashed": crashed}
    else:
        ok = (not crashed) and verif_flt.check(name, a, res, exc)
        ev = {"op": "Call", "k": "%s/%s" % (name, a), "ok": bool(ok), "crashed": crashed,
              "exc": "" if (exc is None or ok) else type(exc).__name__,
              "msg": "" if exc is None else str(exc)[:150],
              "bodies": [[k, n] for k, n in sorted(bodies.items())],
              "faulted": fired,
              "variant": fault["variant"] if fired else "",
              "poisoned": poisoned_content_keys(root)}
    return {"ev": ev, "opcount": INJ.n, "oplist": list(INJ.ops), "optrace": trace}


def one_call(name, a):
    if name == "forget":
        verif_flt.FNS[a[0]].forget(a[1])
    elif name == "list":
        m.list_memoized_functions("vf")
        verif_flt.FNS[a].list_mementos()
    else:
        return verif_flt.FNS[name](a)
    return None


def segment_in_child(job, base, root, first, wfd):
    """real-kill mode: a process of its own performs the calls from `first` on and reports each over the pipe; at an injected
    crash it reports the call it is in and ENDS (os._exit: no finally / except / __exit__ / buffered data of its own)"""
    faults = {f["call"]: f for f in job.get("faults", [])}
    out = os.fdopen(wfd, "w")
    restart(base, job["cfg"].get("budget", 0))
    for i in range(first, len(job["calls"])):
        name, a = job["calls"][i]
        fault = faults.get(i)

        def kill(name=name, a=a, fault=fault):
            INJ.on = False
            out.write(json.dumps(record(job, root, name, a, None, None, True, fault)) + "\n")
            out.flush()
            os._exit(77)
        verif_side.log.reset()
        INJ.arm(root, fault)
        INJ.buffered = bool(job["cfg"].get("buffered"))
        INJ.kill = kill
        res, exc = None, None
        try:
            res = one_call(name, a)
        except Exception as e:
            exc = e
        finally:
            INJ.disarm()
        out.write(json.dumps(record(job, root, name, a, res, exc, False, fault)) + "\n")
        out.flush()
    os._exit(0)


def run_calls_killing(job, base, root):
    recs = []
    while len(recs) < len(job["calls"]):
        r, w = os.pipe()
        pid = os.fork()
        if pid == 0:
            try:
                os.close(r)
                segment_in_child(job, base, root, len(recs), w)
            finally:
                os._exit(99)
        os.close(w)
        with os.fdopen(r) as f:
            got = [json.loads(ln) for ln in f if ln.strip()]
        _, status = os.waitpid(pid, 0)
        code = os.waitstatus_to_exitcode(status)
        if code not in (0, 77) or not got or (code == 77) != bool(got[-1]["ev"]["crashed"]):
            raise RuntimeError("real-kill segment ended with status %s after %d reports" % (code, len(got)))
        recs += got
    return recs


def run_calls_inprocess(job, base, root):
    faults = {f["call"]: f for f in job.get("faults", [])}
    recs = []
    for i, (name, a) in enumerate(job["calls"]):
        fault = faults.get(i)
        verif_side.log.reset()
        INJ.arm(root, fault)
        INJ.buffered = bool(job["cfg"].get("buffered"))
        INJ.kill = None
        res, exc, crashed = None, None, False
        try:
            res = one_call(name, a)
        except Crash:
            crashed = True
        except Exception as e:
            exc = e
        finally:
            INJ.disarm()
        recs.append(record(job, root, name, a, res, exc, crashed, fault))
        if crashed:
            restart(base, job["cfg"].get("budget", 0))
    return recs


def run_job(job):
    base = tempfile.mkdtemp(prefix="verif_flt_")
    root = os.path.join(base, "data")
    old = Environment.get()
    try:
        restart(base, job["cfg"].get("budget", 0))
        recs = run_calls_killing(job, base, root) if job["cfg"].get("realkill") else run_calls_inprocess(job, base, root)
        return {"cfg": job["cfg"], "ev": [r["ev"] for r in recs], "opcounts": [r["opcount"] for r in recs],
                "oplists": [r["oplist"] for r in recs] if job.get("want_ops") else None,
                "optraces": [r["optrace"] for r in recs] if job.get("want_trace") else None,
                "job": {"calls": job["calls"], "faults": job.get("faults", [])}}
    finally:
        INJ.disarm()
        Environment.set(old)
        shutil.rmtree(base, ignore_errors=True)


def main():
    with _real_open(sys.argv[1]) as f:
        doc = json.load(f)
    out = {"traces": [run_job(j) for j in doc["jobs"]]}
    with _real_open(sys.argv[2], "w") as f:
        json.dump(out, f)


if __name__ == "__main__":
    main()
