"""C12: whatever was stored stays listable and readable as names and code evolve."""
import copy
import json

from . import common, tlc, vprogs
from .common import Report, Scratch, rng

VERSIONS = ["1", "10", "1.0-rc_1+b=2@x", "1:2", "a::b", "#x", "v#1:2", ":", "::", "#", "x::y:z#w", "a:b#c::d", "7#", ":1", "1:",
            # versions that look like pieces of the filesystem layout
            "1.link", ".link", "2.memento.json", "3.metadata.k", "v.memento.json.link", ".versions", "..", "."]
ALPHA = "ab1.-_+=:#@"


def name_cases(r, quick):
    cases = []
    for cluster in (None, "vn", "c-1.x_y", ".hid_1"):
        for fn in ("fa", "meth"):
            for v in VERSIONS:
                cases.append({"cluster": cluster, "fn": fn, "version": v})
    for _ in range(60 if quick else 4000):
        v = "".join(r.choice(ALPHA) for _ in range(r.randint(1, 6)))
        cases.append({"cluster": r.choice([None, "vn", "c-1.x_y", ".hid_1"]), "fn": r.choice(["fa", "meth"]), "version": v})
    return cases


def evolution_job(r, cluster, callee_cluster, kind, cv=None, target="?"):
    """cv: explicit version string of the callee (None: automatic version)"""
    caller = vprogs.new_fn("m1", "mem", [{"to": "m2", "form": "bare"}], explicit="1", cluster=cluster)
    callee = vprogs.new_fn("m2", "mem", [], cluster=callee_cluster, explicit=cv)
    p0 = {"nodes": [caller, callee]}
    steps = [{"do": "proc", "hashseed": "0"}, {"do": "call", "name": "m1"}, {"do": "probe", "name": "m1"}]
    direction = ""
    if kind == "edit":
        n = copy.deepcopy(callee)
        n["slots"][r.choice(vprogs.SLOTS)] += 1
        if cv is not None:
            n["explicit"] = cv + "x"
        steps.append({"do": "set", "node": n})
    elif kind == "remove":
        steps.append({"do": "drop", "name": "m2"})
    elif kind == "recluster":
        n = copy.deepcopy(callee)
        # to another named cluster, or between a named and the default cluster
        n["cluster"] = target if target != "?" else r.choice([c for c in ("vy", "vz", None) if c != callee_cluster])
        steps.append({"do": "set", "node": n})
        direction = "%s->%s" % ("default" if callee_cluster is None else "named", "default" if n["cluster"] is None else "named")
    if r.random() < 0.5:
        steps += [{"do": "proc", "hashseed": "0"}, {"do": "call", "name": "m1"}, {"do": "probe", "name": "m1"}]
    else:      # the other order of use in the new process: listings first, then the memento, then the call
        steps += [{"do": "proc", "hashseed": "0"}, {"do": "probe", "name": "m1", "listfirst": True}, {"do": "call", "name": "m1"},
                  {"do": "probe", "name": "m1"}]
    return {"prog": p0, "steps": steps, "clusters": ["vy"], "kind": kind, "cluster": cluster, "callee_cluster": callee_cluster, "cv": cv,
            "direction": direction if kind == "recluster" else ""}


def evolution_job_argfn(r, cluster, kind):
    """the vanishing version is recorded as an ARGUMENT VALUE (a memento function handed to the callee), not as a callee"""
    caller = vprogs.new_fn("m1", "mem", [{"to": "m2", "form": "bare", "pass": "m3"}], explicit="1", cluster=cluster)
    mid = dict(vprogs.new_fn("m2", "mem", [], explicit="1", cluster=cluster), fnarg=True)
    leaf = vprogs.new_fn("m3", "mem", [], cluster=cluster)
    p0 = {"nodes": [caller, mid, leaf]}
    also = ["m2"]
    steps = [{"do": "proc", "hashseed": "0"}, {"do": "call", "name": "m1"}, {"do": "probe", "name": "m1", "also": also}]
    if kind == "edit":
        n = copy.deepcopy(leaf)
        n["slots"][r.choice(vprogs.SLOTS)] += 1
        steps.append({"do": "set", "node": n})
    else:
        steps.append({"do": "drop", "name": "m3"})
    steps += [{"do": "proc", "hashseed": "0"}, {"do": "call", "name": "m1"}, {"do": "probe", "name": "m1", "also": also}]
    return {"prog": p0, "steps": steps, "clusters": ["vy"], "kind": kind, "cluster": cluster, "callee_cluster": cluster, "cv": None,
            "direction": "", "argfn": True}


def evolve_events(job, t):
    """fold the raw events of one evolution history into Evolve events"""
    calls = [e for e in t["ev"] if e["op"] == "call"]
    probes = [e for e in t["ev"] if e["op"] == "probe"]
    others = [e for e in t["ev"] if e["op"] not in ("call", "probe", "proc") and e.get("exc")]
    out = []
    if len(calls) < 2 or len(probes) < 2:
        return [{"op": "Evolve", "kind": job["kind"], "served": False, "same": False, "memento": False, "extok": False, "listok": False,
                 "exc": "history incomplete: " + "; ".join(str(e.get("exc")) for e in t["ev"] if e.get("exc"))[:200]}]
    c0, c1, p0, p1 = calls[0], calls[-1], probes[0], probes[-1]
    for px in probes[1:-1]:          # a probe made before the call in the second process: it must work like the last one
        if px.get("exc") or not px.get("memento"):
            p1 = px
            break
    exc = "; ".join(x for x in [c0.get("exc", ""), p0.get("exc", "")] if x)
    ran0 = ["m1", "m2", "m3"] if job.get("argfn") else ["m1", "m2"]
    out.append({"op": "Evolve", "kind": "baseline", "served": c0.get("ran") == ran0, "same": bool(c0.get("same")),
                "memento": bool(p0.get("memento")), "extok": all(not x[1] for x in p0.get("invs", [])) and len(p0.get("invs", [])) == 1,
                "listok": p0.get("nlisted") == 1 and len(p0.get("functions", [])) >= 1, "exc": exc})
    exc = "; ".join(x for x in [c1.get("exc", ""), p1.get("exc", "")] + [o["exc"] for o in others] if x)
    want_ext = job["kind"] in ("edit", "remove") and not job.get("argfn")     # (argfn: the callee m2 itself is unchanged)
    if job.get("argfn"):
        p1["nlisted"] = p1.get("nlisted") if p1.get("others") == p0.get("others") else -1
    out.append({"op": "Evolve", "kind": job["kind"], "served": c1.get("ran") == [], "same": c1.get("got") == c0.get("got") and "got" in c1,
                "memento": bool(p1.get("memento")),
                "extok": len(p1.get("invs", [])) == 1 and (not want_ext or all(x[1] for x in p1["invs"])) and all(x[2] for x in p1["invs"] if len(x) > 2)
                and [x[0] for x in p1["invs"]] == [x[0] for x in p0.get("invs", [])],   # still names what was called
                "listok": p1.get("nlisted") == 1, "exc": exc})
    return out


def run(prop, tier):
    rep = Report(prop, tier)
    quick = tier == "quick"
    r = rng(prop)
    with Scratch(prop) as wd:
        mc = tlc.model_check("MCQName", "QName.cfg", wd, timeout=280)
        rep.add_tlc(mc, "exhaustive: Parts(Build(p)) = p over the token pools (QName.tla)")
        cases = name_cases(r, quick)
        jobs = []
        for backend in ("fs", "memory"):
            chunk = 40
            for i in range(0, len(cases), chunk):
                jobs.append({"backend": backend, "cases": cases[i:i + chunk]})
        ntraces = common.run_jobs("names_worker.py", jobs, wd, timeout=2400)
        traces, meta = [], []
        for j, t in zip(jobs, ntraces):
            # one trace per case so that one failing name does not hide the others
            cur = []
            for e in t["ev"]:
                if e["op"] == "Parse" and cur:
                    traces.append(cur); cur = []
                cur.append(e)
            if cur:
                traces.append(cur)
        evjobs = []
        for kind in ("edit", "remove", "recluster"):
            for cluster, cc in ((None, None), ("vz", "vz"), (None, "vz"), ("vz", None)):
                for _ in range(1 if quick else 8):
                    evjobs.append(evolution_job(r, cluster, cc, kind))
                    evjobs.append(evolution_job(r, cluster, cc, kind, cv=r.choice(["a::b", "1:2", "#x", "1.link", "x::y:z#w", "7"])))
                    if kind in ("edit", "remove") and cc == cluster:
                        evjobs.append(evolution_job_argfn(r, cluster, kind))
                    if kind == "recluster":         # every direction of the move
                        for tgt in ("vy", "vz", None):
                            if tgt != cc:
                                evjobs.append(evolution_job(r, cluster, cc, kind, target=tgt))
        evt = common.run_jobs("ver_worker.py", evjobs, wd, timeout=2400)
        for j, t in zip(evjobs, evt):
            evs = evolve_events(j, t)
            for e in evs:
                e["case"] = {"kind": j["kind"], "cluster": j["cluster"], "callee_cluster": j["callee_cluster"], "version": j.get("cv") or "",
                             "direction": j.get("direction", "")}
            traces.append(evs)
        # every qualified name the repository's own test suite gives a function (recorded by the pytest plugin), parsed
        from . import suite_rec
        sdoc = suite_rec.record_suite(wd)
        sn = sdoc.get("names", [])
        if not sn:
            raise common.Machinery("the recording run of the test suite built no qualified name")
        for e in sn:
            e["case"] = {"kind": "suite", "cluster": "".join(e["cluster"]) or None, "version": "".join(e["version"]), "test": e.get("test", "")}
        for i in range(0, len(sn), 25):
            traces.append(sn[i:i + 25])
        rep.cov["suite_qualified_names_parsed"] = len(sn)
        keep = ("op", "name", "cluster", "module", "function", "hasver", "version", "exc", "by", "ok", "kind", "served", "same", "memento",
                "extok", "listok")
        payload = [{"cfg": {"x": 0}, "ev": [{k: v for k, v in e.items() if k in keep} for e in tr]} for tr in traces]
        rej, vr = tlc.validate_traces("TraceNames", payload, wd, timeout=1500)
        rep.add_tlc(vr, "trace validation TraceNames")
        rep.cov["traces_validated_against_impl"] = len(traces)
        rep.cov["evaluations"] = sum(len(t) for t in traces)
        rep.cov["distinct_nontrivial"] = len({json.dumps(t[0].get("case"), sort_keys=True) for t in traces})
        rep.cov["name_cases"] = len(cases) * 2
        rep.cov["evolution_histories"] = len(evjobs)
        rep.cov["rule"] = ("names: {default, 2 named clusters} x {module-level function, static method} x version strings (fixed adversarial pool "
                           "with ':', '::', '#' + random strings over letters digits . _ - + = : # @) on filesystem and memory backends, each "
                           "parsed and stored/found by call, memento(), list_mementos(), list_memoized_functions(); evolutions: pinned caller x "
                           "callee {edited, removed, re-clustered} x caller/callee in default or named cluster, across two interpreter processes")
        rep.sample({"events": [{k: v for k, v in e.items() if k in ("op", "qn", "by", "ok", "exc")} for e in traces[0]]})
        rep.sample({"events": traces[-1]})
        for rj in rej:
            tr = traces[rj["tid"] - 1]
            e = tr[rj["prefix"]] if rj["prefix"] < len(tr) else {}
            case = e.get("case") or {}
            v = case.get("version", "")
            facts = {"property": prop, "op": e.get("op"), "by": e.get("by", ""), "why": sorted(rj["why"]), "exc": (e.get("exc") or "")[:90],
                     "default_cluster": case.get("cluster") is None, "version_has_colon": ":" in v, "version_has_hash": "#" in v,
                     "kind": e.get("kind", ""), "recluster_direction": case.get("direction", "")}
            rep.violation(facts, {"case": case, "qualified_name": e.get("qn"), "event": {k: v_ for k, v_ in e.items() if k != "case"},
                                  "failed_clauses": sorted(rj["why"])})
        rep.assumptions += ["admissible names: cluster/module/function non-empty without ':' and '#'; versions over the stated alphabet"]
    return rep.finish()
