"""C09 worker: runs real threads on real backends under the deterministic scheduler.

in : {"jobs": [{"scenario": {...}, "schedules": [{"start": i, "preempts": [[step, thread], ...]} | {"random": seed, "p": 0.2}]}]}
out: {"traces": [ {"cfg":..., "ev": [...], "steps": N, "schedule": [...] } per schedule ...]}
"""
import itertools
import json
import os
import random
import shutil
import sys
import tempfile
import threading

import twosigma.memento as m
from twosigma.memento import runner_local
from twosigma.memento.configuration import ConfigurationRepository, Environment, FunctionCluster
from twosigma.memento.storage_filesystem import FilesystemStorageBackend
from twosigma.memento.storage_memory import MemoryStorageBackend

import verif_sched
import verif_side
import verif_thr

KEYID = {}


def kid(key):
    """(fn name, arg) -> <<f, h>> ids used by the monitors"""
    name, a = key
    return [{"tf": 1, "tg": 2, "th": 3, "tw": 4}[name], a]


def make_backend(sc, base):
    if sc["backend"] == "memory":
        return MemoryStorageBackend()
    mb = (sc["budget"] / 1048576.0) if sc.get("budget") else None
    return FilesystemStorageBackend(path=os.path.join(base, "data"), memory_cache_mb=mb)


def set_env(backend, base):
    Environment.set(Environment(name="verif", base_dir=base, repos=[ConfigurationRepository(
        name="r", clusters={"vt": FunctionCluster(name="vt", storage=backend)})]))


def do_call(call):
    """call = (fn, arg) or (fn, arg, "partial"): the same call spelled through partial application"""
    name, a = call[0], call[1]
    if len(call) > 2 and call[2] == "partial":
        return verif_thr.FNS[name].partial(a)()
    return verif_thr.FNS[name](a)


def outcome_ok(call, result, exc):
    name, a = call[0], call[1]
    bad = (name == "tf" and a == 13)
    if bad:
        return isinstance(exc, ValueError) and "unlucky 13" in str(exc)
    if exc is not None:
        return False
    return result == verif_thr.value_of(name, a)


def proj_cache(backend, hash_ids):
    mc = getattr(backend, "_memory_cache", None)
    if mc is None:
        return {"lru": [], "ent": [], "usage": 0}

    def k(ck):
        qn, _, ah = ck.rpartition("/")
        fname = qn.split(":")[-1].split("#")[0]
        return [{"tf": 1, "tg": 2, "th": 3, "tw": 4}.get(fname, 9), hash_ids.get(ah, 0)]
    return {"lru": [k(x) for x in list(mc.lru_deque)],
            "ent": [{"k": k(x), "size": int(e.obj_size), "hasv": bool(e.has_value)} for x, e in mc.cache.items()],
            "usage": int(mc.memory_usage)}


# ---- mechanism recording (TraceThreads.tla): what each thread does to the backend and the per-call mutex, in real order
def _tidx():
    me = getattr(verif_sched._current, "m", None)
    return (me.idx + 1) if me is not None else 0


class _MutexProxy:
    def __init__(self, lock):
        self._l = lock

    def __enter__(self):
        self._l.acquire()
        verif_side.log("M", "lock", _tidx())
        return self

    def __exit__(self, *a):
        self._l.release()
        verif_side.log("M", "unlock", _tidx())
        return False


def install_mech(backend):
    """external wrappers on THIS backend object and on the runner's mutex look-up; the scheduler does not yield inside
    them, so an event is atomic with the return (or the start) of the call it reports"""
    tls = threading.local()

    def wrap(name, start, end):
        orig = getattr(backend, name)

        def w(*a, **kw):
            if getattr(tls, "d", 0):
                return orig(*a, **kw)
            tls.d = 1
            try:
                if start:
                    verif_side.log("M", start, _tidx())
                res = orig(*a, **kw)
                # (what is logged is decided NOW: the memory backend answers is_memoized with the very dictionary it fills later)
                seen = bool(res and res[0] is not None) if end == "gend" else bool(res) if end == "iend" else None
                verif_side.log("M", end, _tidx(), seen)
                return res
            finally:
                tls.d = 0
        setattr(backend, name, w)

    wrap("get_mementos", "gstart", "gend")
    wrap("read_result", "rstart", "rend")
    wrap("is_memoized", None, "iend")
    wrap("memoize", "mstart", "mend")
    orig_mutex = runner_local._mutex_for_invocation
    runner_local._mutex_for_invocation = lambda f: _MutexProxy(orig_mutex(f))
    return lambda: setattr(runner_local, "_mutex_for_invocation", orig_mutex)


def mech_cache(p):
    """cache projection in the vocabulary of Threads.tla (keys are the arguments of tf)"""
    return {"lru": [k[1] for k in p["lru"]],
            "ent": [{"k": e["k"][1], "kind": "val" if e["hasv"] else "mem", "size": e["size"]} for e in p["ent"]],
            "usage": p["usage"]}


def hash_table():
    t = {}
    for name, fn in verif_thr.FNS.items():
        for a in range(0, 200):
            t[fn.fn_reference().with_args(a).arg_hash] = a
    return t


HASHES = None


def prepare(sc, base):
    """Builds the initial state of a scenario; returns the backend the threads will use."""
    backend = make_backend(sc, base)
    set_env(backend, base)
    for call in sc.get("warm", []):
        try:
            do_call(tuple(call))
        except ValueError:
            pass
    if sc.get("cold_cache") and sc["backend"] != "memory":
        backend = make_backend(sc, base)      # new backend object on the warm store
        set_env(backend, base)
    verif_side.log.reset()
    return backend


def run_sequential(sc, order):
    base = tempfile.mkdtemp(prefix="verif_thr_")
    try:
        backend = prepare(sc, base)
        for i in order:
            for call in sc["threads"][i]:
                try:
                    do_call(tuple(call))
                except Exception:
                    pass
        p = proj_cache(backend, HASHES)
        return {"ent": sorted(p["ent"], key=lambda e: e["k"]), "usage": p["usage"]}
    finally:
        shutil.rmtree(base, ignore_errors=True)


def run_schedule(sc, sched, seqs):
    base = tempfile.mkdtemp(prefix="verif_thr_")
    old = Environment.get()
    try:
        backend = prepare(sc, base)
        verif_sched.install_coop_locks()
        verif_sched.coop_locks_in(backend)
        events = []
        log = verif_side.log
        mech0, undo_mech = None, None
        if sc.get("mech"):
            mech0 = mech_cache(proj_cache(backend, HASHES))
            undo_mech = install_mech(backend)

        def mk(i, calls):
            def fn():
                if sc.get("own_backend") and i > 0:
                    # this thread configures memento again (a pool initializer does): its calls go through ANOTHER backend object
                    # on the same store directory
                    b = make_backend(sc, base)
                    verif_sched.coop_locks_in(b)
                    set_env(b, base)
                for call in calls:
                    call = tuple(call)
                    log("Start", i, call[:2])
                    res, exc = None, None
                    try:
                        res = do_call(call)
                    except Exception as e:
                        exc = e
                    log("End", i, call[:2], outcome_ok(call, res, exc),
                        "" if (exc is None or outcome_ok(call, res, exc)) else type(exc).__name__,
                        "" if exc is None else str(exc)[:120])
            return fn

        fns = [mk(i, calls) for i, calls in enumerate(sc["threads"])]
        if "random" in sched:
            pol = verif_sched.policy_random(random.Random(sched["random"]), sched.get("p", 0.15))
        elif "park" in sched:
            pol = verif_sched.policy_park(sched.get("start", 0), sched["park"], sched["other"],
                                          lambda: sum(1 for it in log.events if it[0] == "Body"))
        else:
            pol = verif_sched.policy_preemptions(sched.get("start", 0), [tuple(x) for x in sched.get("preempts", [])])
        ctrl = verif_sched.Controller(fns, pol, max_steps=int(sc.get("max_steps", 20000)))
        ctrl.run()
        if undo_mech:
            undo_mech()
        mech = []
        for item in log.take():
            if item[0] == "M":
                e = {"k": item[1], "t": item[2]}
                if item[1] == "gend":
                    e["found"] = item[3]
                elif item[1] == "iend":
                    e["ret"] = item[3]
                mech.append(e)
                continue
            if item[0] == "Body" and sc.get("mech"):
                mech.append({"k": "body", "t": item[3] if len(item) > 3 else 0})
            if item[0] == "End" and sc.get("mech") and item[3]:
                mech.append({"k": "end", "t": item[1] + 1})
            if item[0] == "Body":
                events.append({"op": "Body", "k": kid((item[1], item[2]))})
            elif item[0] == "Start":
                events.append({"op": "Start", "t": item[1], "k": kid(item[2])})
            elif item[0] == "End":
                events.append({"op": "End", "t": item[1], "k": kid(item[2]), "ok": bool(item[3]), "exc": item[4], "msg": item[5]})
        for t in ctrl.threads:
            if t.exc is not None:
                events.append({"op": "End", "t": t.idx, "k": [0, 0], "ok": False, "exc": type(t.exc).__name__, "msg": str(t.exc)[:120]})
        p = proj_cache(backend, HASHES)
        called = []
        for calls in sc["threads"]:
            for c in calls:
                for k in verif_thr.needed_keys(tuple(c[:2])):
                    if kid(k) not in called:
                        called.append(kid(k))
        events.append({"op": "Quiesce", "deadlock": bool(ctrl.deadlock), "proj": p, "called": called,
                       "entsorted": sorted(p["ent"], key=lambda e: e["k"]), "seq": seqs})
        warm = []
        for c in sc.get("warm", []):
            for k in verif_thr.needed_keys(tuple(c[:2])):
                if kid(k) not in warm:
                    warm.append(kid(k))
        mech_doc = None
        if sc.get("mech"):
            mech.append(dict(mech_cache(p), k="quiesce", t=0))
            store = sorted({c[1] for c in sc.get("warm", [])})
            mech_doc = {"cfg": dict(mech0, want=[calls[0][1] for calls in sc["threads"]], store=store), "ev": mech}
        return {"cfg": {"warm": warm, "budget": sc.get("budget", 0), "scenario": sc.get("name", "")}, "mech": mech_doc,
                "ev": events, "steps": ctrl.step, "schedule": ctrl.schedule if len(ctrl.schedule) < 3000 else [],
                "sched": sched}
    finally:
        Environment.set(old)
        shutil.rmtree(base, ignore_errors=True)


def main():
    global HASHES
    with open(sys.argv[1]) as f:
        doc = json.load(f)
    HASHES = hash_table()
    # every lock memento creates from now on is a cooperative one, also those created while a scenario is
    # prepared (a lock table that outlives a run must not hand real locks to managed threads)
    verif_sched.install_coop_locks()
    out = []
    for job in doc["jobs"]:
        sc = job["scenario"]
        n = len(sc["threads"])
        seqs = []
        for order in itertools.permutations(range(n)):
            s = run_sequential(sc, order)
            if s not in seqs:
                seqs.append(s)
        for sched in job["schedules"]:
            out.append(run_schedule(sc, sched, seqs))
    with open(sys.argv[2], "w") as f:
        json.dump({"traces": out}, f)


if __name__ == "__main__":
    main()
