"""Program generator for the versioning properties (C01, C03, C13, C14, C12b).

A program is {"nodes": [node, ...]}; node kinds:
  mem / plain : {"name", "kind", "slots": {body,const,dflt,kwd,nested,setc,tup}, "refs": [{"to", "form"}],
                 "hidden": [names], "explicit": None|str, "cluster": None|str}
  var         : {"name", "kind": "var", "val": json value}
Reference forms: bare (f(a)), attr (module attribute through `import pkg.mod as _self`), alias (a
module-level alias name bound to the target), wrapped (target decorated by a functools.wraps
decorator around the memento function).
Every slot value occurs in the returned value, so every slot edit changes the un-memoized result.
Optional features (all in the domain of C01/C03/C13/C14):
  node["where"] == "init"   a plain leaf helper defined in the package's __init__ module and imported by name
  node["cls"]               a plain leaf helper that is a static method of class node["cls"] (name "K1.sm"): two
                            classes may give their helpers the same bare name
  node["late"] (var)        a list/dict created empty before the definitions and filled in place after them
  form "wrapped2"           the target decorated by two stacked functools.wraps decorators
  node["fnarg"]             the function takes an optional memento function argument and calls it
"""
import copy
import json

SLOTS = ["body", "const", "dflt", "kwd", "nested", "setc", "tup"]
PKG = "vzpkg"
MOD = "vzpkg.mod"


def new_fn(name, kind, refs=(), hidden=(), explicit=None, cluster="vz"):
    return {"name": name, "kind": kind, "slots": {s: 0 for s in SLOTS}, "refs": [dict(r) for r in refs],
            "hidden": list(hidden), "explicit": explicit, "cluster": cluster}


def random_prog(r, nmem=3, nplain=2, nvar=2, hidden_p=0.15, forms=("bare", "bare", "attr", "alias"), acyclic=True,
                init_p=0.0, twins_p=0.0, late_p=0.0, shapes_p=0.0, factory_p=0.0, deco_p=0.0, lambdas_p=0.0, setdict_p=0.0, tuple_p=0.0):
    names = ["m%d" % i for i in range(1, nmem + 1)] + ["h%d" % i for i in range(1, nplain + 1)]
    vars_ = ["v%d" % i for i in range(1, nvar + 1)]
    nodes = []
    order = {n: i for i, n in enumerate(names)}
    for n in names:
        kind = "mem" if n.startswith("m") else "plain"
        cands = [x for x in names if (order[x] > order[n] if acyclic else x != n)]
        refs = []
        for x in r.sample(cands, min(len(cands), r.randint(0, 2))):
            form = r.choice(forms) if x.startswith("m") else r.choice(["bare", "bare", "attr"])
            refs.append({"to": x, "form": form})
        for v in r.sample(vars_, r.randint(0, min(2, len(vars_)))):
            refs.append({"to": v, "form": "bare"})
        hidden = []
        if kind == "mem" and r.random() < hidden_p:
            hc = [x for x in cands if x.startswith("m") and x not in [q["to"] for q in refs]]
            if hc:
                hidden.append(r.choice(hc))
        nodes.append(new_fn(n, kind, refs, hidden))
    pool = [0, 1, True, None, 1.5, "s", [1, 2], {"a": 1, "b": [1]}, [], ""]
    for v in vars_:
        nodes.append({"name": v, "kind": "var", "val": copy.deepcopy(r.choice(pool))})
    fns = [n for n in nodes if n["kind"] in ("mem", "plain")]
    # plain helpers under a functools.wraps decorator (all wrappers share one code object)
    if r.random() < deco_p:
        for n in fns:
            if n["kind"] == "plain":
                n["deco"] = True
    # a plain leaf helper lives in the package's __init__ module
    if r.random() < init_p:
        # (it may itself call functions of the module: through the module object bound at the end of __init__)
        leaves = [n for n in fns if n["kind"] == "plain" and not n["hidden"] and not n.get("deco")
                  and all(q["form"] == "bare" for m_ in fns for q in m_["refs"] if q["to"] == n["name"])
                  and any(q["to"] == n["name"] for m_ in fns for q in m_["refs"])]
        if leaves:
            lf = r.choice(leaves)
            lf["where"] = "init"
            lf["refs"] = [{"to": q["to"], "form": "initmod"} for q in lf["refs"] if q["to"][0] in "mh" and q["to"] != lf["name"]]
    # two static methods with the same bare name, both called by one function
    if r.random() < twins_p:
        user = r.choice([n for n in fns if n.get("where") != "init"])
        for c in ("K1", "K2"):
            nodes.append(dict(new_fn(c + ".sm", "plain"), cls=c))
            user["refs"].append({"to": c + ".sm", "form": "bare"})
    # a tracked tuple holding a list: immutable only on the surface
    if r.random() < tuple_p:
        nodes.append({"name": "vt", "kind": "var", "val": ["std", [10, 20]], "tuple": True})
        for u in r.sample([n for n in fns if n.get("where") != "init"], min(2, len(fns))):
            u["refs"].append({"to": "vt", "form": "bare"})
    # a table whose insertion order (not its value) depends on the hash seed: built by iterating over a set
    if r.random() < setdict_p:
        nodes.append({"name": "vs", "kind": "var", "val": {"ka": 2, "kbb": 3, "kccc": 4, "kdddd": 5, "keeeee": 6}, "fromset": True})
        for u in r.sample([n for n in fns if n.get("where") != "init"], min(2, len(fns))):
            u["refs"].append({"to": "vs", "form": "bare"})
        # ... and a module-level frozenset of strings the functions read (its iteration order depends on the hash seed)
        nodes.append({"name": "vq", "kind": "var", "val": ["qa", "qbb", "qccc", "qdddd", "qeeeee"], "fromset": True, "isset": True})
        for u in r.sample([n for n in fns if n.get("where") != "init"], min(2, len(fns))):
            u["refs"].append({"to": "vq", "form": "bare"})
    # two module-level lambdas used by one function
    if r.random() < lambdas_p:
        user = r.choice([n for n in fns if n.get("where") != "init"])
        for i in (1, 2):
            nodes.append(dict(new_fn("hl%d" % i, "plain"), lam=True))
            nodes[-1]["slots"]["body"] = i
            user["refs"].append({"to": "hl%d" % i, "form": "bare"})
    # two helpers made by one factory (one code object, different defaults), used by different functions
    if r.random() < factory_p and len(fns) >= 2:
        users = r.sample([n for n in fns if n.get("where") != "init"], 2)
        for i, u in enumerate(users, start=1):
            nodes.append(dict(new_fn("hf%d" % i, "plain"), factory=True))
            nodes[-1]["slots"]["dflt"] = i
            u["refs"].append({"to": "hf%d" % i, "form": "bare"})
    # references placed in syntactic contexts other than a bare call
    if shapes_p:
        for n in fns:
            for q in n["refs"]:
                if r.random() < shapes_p and q["to"] not in ("vs", "vq"):      # (the text of `vs` depends on the hash seed, its value does not)
                    q["shape"] = r.choice(SHAPES)
    # (a program with a set-built table must not turn values into text: the text would depend on the hash seed)
    if any(n.get("fromset") for n in nodes):
        for n in fns:
            for q in n["refs"]:
                if q.get("shape") in ("strarg", "fstr", "chain"):
                    q["shape"] = "index"
    # a table created empty and filled in place after the definitions
    if r.random() < late_p:
        v = {"name": "vl", "kind": "var", "val": r.choice([[1, 2], {"a": 1}, [3], {"vat": 20, "x": [1]}]), "late": True}
        nodes.append(v)
        home = [n for n in fns if n.get("where") != "init"]
        for u in r.sample(home, min(len(home), r.randint(1, 2))):
            u["refs"].append({"to": "vl", "form": "bare"})
    return {"nodes": nodes}


def is_fn(n):
    return n["kind"] in ("mem", "plain")


def node(prog, name):
    for n in prog["nodes"]:
        if n["name"] == name:
            return n
    return None


SHAPES = ["plain", "plain", "plain", "strarg", "index", "lambda", "comp", "cond", "fstr", "kwarg", "chain"]


def shaped(x, shape):
    """the expression x (a call or a variable) placed in a syntactic context"""
    return {
        "strarg": "str(%s).strip()" % x,            # inside the arguments of a call whose result is dereferenced
        "index": "[%s][0]" % x,
        "lambda": "(lambda: %s)()" % x,
        "comp": "[%s for _ in (0,)][0]" % x,
        "cond": "(%s if a >= 0 else None)" % x,
        "fstr": "f\"{%s}\"" % x,
        "kwarg": "dict(v=%s)[\"v\"]" % x,
        "chain": "repr(%s).upper().lower()" % x,
    }.get(shape, x)


def fn_source(n, twin=False, decorate=True):
    """Source text of one function definition (identical text in-process and in a fresh file)."""
    s = n["slots"]
    name = n["name"]
    lines = []
    if n.get("shadow"):         # the module's own plain function under the name of a builtin
        return "def %s(x):\n    return 'S%%d:%%s' %% (%d, x)\n" % (name, s["body"])
    if n.get("lam"):            # a module-level lambda (every lambda is named "<lambda>")
        return "%s = lambda a, d=%d: (%s, [%r, %d, 'c%d', d])[1]\n" % (
            name, s["dflt"], "None" if twin else "log('Body', %r)" % name, name, s["body"], s["const"])
    if n["kind"] == "builtin":  # the name is bound to a builtin: nothing memento tracks
        return "%s = abs\n" % name
    if n.get("factory"):      # made by the shared factory _mk: same code object as its sibling, another default
        return "%s = _mk(%r, %d)\n" % (name, name, s["dflt"])
    if n["kind"] == "mem" and not twin and decorate:
        args = []
        if n.get("cluster"):
            args.append("cluster=%r" % n["cluster"])
        if n.get("explicit") is not None:
            args.append("version=%r" % n["explicit"])
        lines.append("@m.memento_function(%s)" % ", ".join(args))
    defname = name.split(".")[-1]
    # (fs: a default that is a frozenset of strings - its description in the code hash must not depend on the hash seed)
    fs = "fs=frozenset({'p%d', 'q', 'r', 's'})" % s["kwd"]
    if n.get("fnarg"):
        lines.append("def %s(a, d=%d, fnarg=None, *, k=%d, %s):" % (defname, s["dflt"], s["kwd"], fs))
    else:
        lines.append("def %s(a, d=%d, *, k=%d, %s):" % (defname, s["dflt"], s["kwd"], fs))
    if n.get("deco") and n["kind"] == "plain" and not n.get("cls") and n.get("where") != "init":
        lines.insert(len(lines) - 1, "@_deco")
    if not twin:
        lines.append("    log('Body', %r)" % name)
    lines.append("    acc = [%r, %d, 'c%d', d, k]" % (name, s["body"], s["const"]))
    lines.append("    acc.append((lambda: 'n%d')())" % s["nested"])
    lines.append("    acc.append([w for w in ('x', 'y%d') if w in {'x', 'y%d', 'z'}])" % (s["setc"], s["setc"]))
    lines.append("    acc.append(%d in (7, 8, %d))" % (s["tup"], s["tup"]))
    for r in n["refs"]:
        to = r["to"]
        if to == "vq":
            x = "sorted(vq)"
        elif to.startswith("v") or to.startswith("u"):
            x = to
        elif r["form"] == "attr":
            x = "_self.%s(a)" % to
        elif r["form"] == "alias":
            x = "alias_%s(a)" % to
        elif r["form"] == "wrapped":
            x = "wrapped_%s(a)" % to
        elif r["form"] == "wrapped2":
            x = "wrapped2_%s(a)" % to
        elif r["form"] == "initmod":
            x = "_mod.%s(a)" % to
        else:
            x = "%s(a)" % to
        if r.get("pass"):          # a memento function handed over as an argument value
            x = x[:-1] + ", fnarg=%s)" % r["pass"]
        lines.append("    acc.append(%s)" % shaped(x, r.get("shape", "plain")))
    if n.get("fnarg"):
        lines.append("    if fnarg is not None:")
        lines.append("        acc.append(fnarg(a))")
    for h in n.get("hidden", []):
        lines.append("    acc.append(globals()[%r](a))" % h)
    if n.get("ovr") and n["kind"] == "mem" and not twin:
        # the result is published under a key the function chooses itself (the same for every edition of the function)
        lines.append("    return _kor(acc, 'ovr/%s/%%s' %% (a,))" % name.replace(".", "_"))
    else:
        lines.append("    return acc")
    if n.get("cls"):
        lines = ["class %s:" % n["cls"], "    @staticmethod"] + ["    " + ln for ln in lines]
    return "\n".join(lines) + "\n"


HEADER = '''"""generated by /verif/harness/vprogs.py"""
import functools
import sys
import twosigma.memento as m
from twosigma.memento.result import KeyOverrideResult as _kor
from verif_side import log


def _deco(fn):
    @functools.wraps(fn)
    def inner(*a, **kw):
        return fn(*a, **kw)
    return inner


def _mk(nm, dv):
    def made(a, d=dv, nm=nm):
        log('Body', nm)
        return [nm, d, a]
    return made


_self = sys.modules[__name__]

'''
TWIN_HEADER = '''"""plain twin: the same program without memoization"""
import functools
import sys


def _deco(fn):
    @functools.wraps(fn)
    def inner(*a, **kw):
        return fn(*a, **kw)
    return inner


def _mk(nm, dv):
    def made(a, d=dv, nm=nm):
        return [nm, d, a]
    return made


_self = sys.modules[__name__]
_mod = _self

'''


def module_source(prog, twin=False, order=None):
    """Whole-module source.  `order`: permutation of function names (definition order)."""
    out = [TWIN_HEADER if twin else HEADER]
    modname = (PKG + ".twin") if twin else MOD
    fns = [n for n in prog["nodes"] if n["kind"] in ("mem", "plain", "builtin")]
    if order:
        fns = sorted(fns, key=lambda n: order.index(n["name"]) if n["name"] in order else 99)
    for n in prog["nodes"]:
        if n["kind"] == "var":
            if n.get("tuple"):
                out.append("%s = %r\n" % (n["name"], tuple(n["val"])))
            elif n.get("isset"):
                out.append("%s = frozenset({%s})\n" % (n["name"], ", ".join(repr(k) for k in n["val"])))
            elif n.get("fromset"):
                out.append("%s = {k: len(k) for k in %s}\n" % (n["name"], "{" + ", ".join(repr(k) for k in sorted(n["val"])) + "}"))
            elif n.get("late"):
                out.append("%s = %r\n" % (n["name"], type(n["val"])()))
            else:
                out.append("%s = %r\n" % (n["name"], n["val"]))
    for n in fns:
        if n.get("where") == "init" and not twin:
            out.append("\nfrom %s import %s\n" % (PKG, n["name"]))
        else:
            out.append("\n" + fn_source(n, twin=twin) + "\n")
    for n in prog["nodes"]:
        if n["kind"] == "var" and n.get("late"):
            out.append("%s.%s(%r)\n" % (n["name"], "extend" if isinstance(n["val"], list) else "update", n["val"]))
    for n in fns:
        if n.get("post") == "fn" and n["kind"] == "mem" and not twin:
            out.append("%s = %s.fn\n" % (n["name"], n["name"]))      # the name now holds the plain function underneath
    for n in fns:
        for r in n["refs"]:
            if r["form"] == "alias":
                out.append("alias_%s = %s\n" % (r["to"], r["to"]))
            elif r["form"] == "wrapped":
                out.append("wrapped_%s = _deco(%s)\n" % (r["to"], r["to"]))
            elif r["form"] == "wrapped2":
                out.append("wrapped2_%s = _deco(_deco(%s))\n" % (r["to"], r["to"]))
    for a in prog.get("aliases", []):       # explicit alias bindings [name, target]
        out.append("%s = %s\n" % (a[0], a[1]))
    return "".join(out)


def init_source(prog):
    """Source of the package's __init__ module: the plain helpers that live there."""
    out = ['"""generated by /verif/harness/vprogs.py (package module)"""\nfrom verif_side import log\n']
    for n in prog["nodes"]:
        if n["kind"] in ("mem", "plain") and n.get("where") == "init":
            out.append("\n" + fn_source(n) + "\n")
    if any(n.get("where") == "init" and n.get("refs") for n in prog["nodes"] if n["kind"] in ("mem", "plain")):
        out.append("\nimport %s as _mod      # (at the end: the module imports names of this package)\n" % MOD)
    return "".join(out)


# ---- edits ------------------------------------------------------------------------------------
def random_edit(r, prog, kinds=None):
    """One edit to the program; returns a description (the program is modified in place)."""
    fns = [n for n in prog["nodes"] if n["kind"] in ("mem", "plain")]
    vars_ = [n for n in prog["nodes"] if n["kind"] == "var"]
    kinds = kinds or ["slot", "slot", "slot", "var", "var_mutate", "addref", "delref", "explicit"]
    k = r.choice(kinds)
    if k == "slot":
        n = r.choice(fns)
        s = r.choice(SLOTS) if not n.get("factory") else "dflt"
        if n.get("lam"):
            s = r.choice(["body", "const", "dflt"])
        n["slots"][s] += 1
        return {"edit": "slot", "name": n["name"], "slot": s}
    if k == "var" and vars_:
        n = r.choice([v for v in vars_ if not v.get("tuple") and not v.get("fromset")] or vars_)
        if n.get("late"):
            n["val"] = copy.deepcopy(r.choice([x for x in ([1, 2], [1, 2, 3], [5]) if x != n["val"]] if isinstance(n["val"], list)
                                              else [x for x in ({"a": 1}, {"a": 2}, {"b": [1]}) if x != n["val"]]))
            return {"edit": "var", "name": n["name"]}
        pool = [0, 1, 2, True, False, None, 1.5, "s", "t", [1, 2], [1, 2, 3], {"a": 1}, {"a": 2}]
        new = copy.deepcopy(r.choice([p for p in pool if p != n["val"] or type(p) != type(n["val"])]))
        n["val"] = new
        return {"edit": "var", "name": n["name"]}
    if k == "var_mutate" and vars_:
        cands = [n for n in vars_ if isinstance(n["val"], (list, dict)) and not n.get("fromset")]
        if cands:
            n = r.choice(cands)
            if n.get("tuple"):        # the tuple itself cannot change: the list inside it does
                n["val"][1].append(len(n["val"][1]) + 10)
                return {"edit": "var_mutate", "name": n["name"]}
            if isinstance(n["val"], list):
                n["val"].append(len(n["val"]) + 10)
            else:
                n["val"]["k%d" % len(n["val"])] = 1
            return {"edit": "var_mutate", "name": n["name"]}
    if k == "addref":
        n = r.choice([x for x in fns if x.get("where") != "init" and not x.get("cls") and not x.get("factory") and not x.get("lam")])
        names = [x["name"] for x in fns if not x.get("cls") and x.get("where") != "init"]
        cands = [x for x in names if names.index(x) > names.index(n["name"]) and x not in [q["to"] for q in n["refs"]]]
        # (two helpers made by one factory have one qualified name: a function that calls both gets ONE hash rule for the two - the
        #  open two-symbols finding; the generator keeps them apart)
        have = {q["to"] for q in n["refs"]}
        fact = {x["name"] for x in fns if x.get("factory")}
        if have & fact:
            cands = [x for x in cands if x not in fact]
        if cands:
            n["refs"].append({"to": r.choice(cands), "form": "bare"})
            return {"edit": "addref", "name": n["name"]}
    if k == "delref":
        cands = [n for n in fns if any(q["to"][0] in "mh" for q in n["refs"]) and n.get("where") != "init"]
        if cands:
            n = r.choice(cands)
            q = r.choice([q for q in n["refs"] if q["to"][0] in "mh"])
            n["refs"].remove(q)
            return {"edit": "delref", "name": n["name"]}
    if k == "explicit":
        cands = [n for n in fns if n["kind"] == "mem" and n["name"] != "m1"]
        if cands:
            n = r.choice(cands)
            n["explicit"] = "e%d" % (int((n["explicit"] or "e0")[1:]) + 1)
            n["slots"]["body"] += 1           # an explicit-version bump accompanies a change of behaviour
            return {"edit": "explicit", "name": n["name"]}
    n = r.choice([x for x in fns if not x.get("factory")])
    n["slots"]["body"] += 1
    return {"edit": "slot", "name": n["name"], "slot": "body"}


if __name__ == "__main__":
    import random
    p = random_prog(random.Random(2))
    print(module_source(p))
