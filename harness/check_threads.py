"""C09: concurrent callers.  Threads.tla (PlusCal mechanism spec) is model-checked by TLC;
real threads are run on real backends under the deterministic scheduler (systematic schedules up
to a preemption bound + random ones) and every execution is validated by TLC against the
SingleFlight monitor."""
import json

from . import common, tlc
from .common import Report, Scratch, rng


def scenarios():
    out = []
    for backend, budget in (("fs", 300), ("fs", 0), ("memory", 0)):
        tag = "%s%s" % (backend, "+cache" if budget else "")
        base = {"backend": backend, "budget": budget}
        out.append(dict(base, name=tag + "/cold/same", warm=[], threads=[[["tf", 1]], [["tf", 1]]]))
        out.append(dict(base, name=tag + "/cold/diff", warm=[], threads=[[["tf", 1]], [["tf", 2]]]))
        out.append(dict(base, name=tag + "/warmstore-coldcache/same", warm=[["tf", 1]], cold_cache=True,
                        threads=[[["tf", 1]], [["tf", 1]]]))
        out.append(dict(base, name=tag + "/warmstore-coldcache/diff", warm=[["tf", 1], ["tf", 2]], cold_cache=True,
                        threads=[[["tf", 1]], [["tf", 2]]]))
        out.append(dict(base, name=tag + "/warmcache/same", warm=[["tf", 1]], threads=[[["tf", 1]], [["tf", 1]]]))
        out.append(dict(base, name=tag + "/warmcache/diff", warm=[["tf", 1], ["tf", 2]],
                        threads=[[["tf", 1]], [["tf", 2]]]))
        out.append(dict(base, name=tag + "/cold/nested-vs-leaf", warm=[], threads=[[["tg", 1]], [["tf", 1]]]))
        out.append(dict(base, name=tag + "/cold/batch-vs-leaf", warm=[], threads=[[["th", 1]], [["tf", 2]]]))
        out.append(dict(base, name=tag + "/cold/exception-same", warm=[], threads=[[["tf", 13]], [["tf", 13]]]))
        out.append(dict(base, name=tag + "/cold/same-call-two-spellings", warm=[], threads=[[["tf", 1]], [["tf", 1, "partial"]]]))
    return out


def scenarios_wide():
    """one caller is inside a long body (140 other distinct invocations happen meanwhile) when a second caller asks for
    the same call: lock tables, caches and stacks see many entries come and go while an invocation is in progress"""
    return [dict(backend="fs", budget=0, name="fs/cold/long-body-same", warm=[], threads=[[["tw", 1]], [["tw", 1]]], max_steps=400000),
            dict(backend="memory", budget=0, name="memory/cold/long-body-same", warm=[], threads=[[["tw", 1]], [["tw", 1]]], max_steps=400000)]


def scenarios3():
    out = []
    for backend, budget in (("fs", 300), ("memory", 0)):
        tag = "%s%s" % (backend, "+cache" if budget else "")
        base = {"backend": backend, "budget": budget}
        out.append(dict(base, name=tag + "/3thr/cold/same", warm=[], threads=[[["tf", 1]], [["tf", 1]], [["tf", 1]]]))
        out.append(dict(base, name=tag + "/3thr/warmstore-coldcache/mixed", warm=[["tf", 1], ["tf", 2]], cold_cache=True,
                        threads=[[["tf", 1]], [["tf", 2]], [["tf", 1]]]))
        out.append(dict(base, name=tag + "/3thr/cold/evict", warm=[], threads=[[["tf", 2]], [["tf", 3]], [["tf", 1]]]))
    return out


def bound1_schedules(nthreads, nsteps, stride=1):
    """All schedules with at most one preemption (plus the non-preemptive ones)."""
    out = []
    for s in range(nthreads):
        out.append({"start": s, "preempts": []})
        for step in range(2, nsteps + 1, stride):
            for u in range(nthreads):
                if u != s:
                    out.append({"start": s, "preempts": [[step, u]]})
    return out


def run(prop, tier):
    rep = Report(prop, tier)
    quick = tier == "quick"
    r = rng(prop)
    with Scratch(prop) as wd:
        for cfg in (["Threads_atomic2.cfg", "Threads_nocache2.cfg"] if quick
                    else ["Threads_atomic2.cfg", "Threads_nocache2.cfg", "Threads_atomic3.cfg"]):
            mc = tlc.model_check("MCThreads", cfg, wd, timeout=280 if quick else 2400)
            rep.add_tlc(mc, "exhaustive: Threads.tla %s (single flight, correct value, no internal error, accounting, deadlock freedom)" % cfg)
        common.tick("model check done")

        scs = scenarios()
        # discover the number of decision points of each scenario with a non-preemptive run
        probe = common.run_jobs("sched_worker.py", [{"scenario": s, "schedules": [{"start": 0, "preempts": []}]} for s in scs], wd)
        jobs = []
        for s, p in zip(scs, probe):
            n = p["steps"]
            stride = 9 if quick else 1
            scheds = bound1_schedules(len(s["threads"]), n, stride)
            if quick:
                scheds = scheds[:: 1]
            scheds += [{"random": r.randrange(1 << 30), "p": r.choice([0.05, 0.15, 0.4])} for _ in range(25 if quick else 150)]
            if not quick:   # preemption bound 2, sampled
                for _ in range(400):
                    a, b = sorted(r.sample(range(2, n + 1), 2))
                    s0 = r.randrange(len(s["threads"]))
                    others = [u for u in range(len(s["threads"])) if u != s0]
                    u = r.choice(others)
                    scheds.append({"start": s0, "preempts": [[a, u], [b, s0]]})
            # split into chunks so that all cores are used
            chunk = max(20, len(scheds) // 8)
            for i in range(0, len(scheds), chunk):
                jobs.append({"scenario": s, "schedules": scheds[i:i + chunk]})
        wide = scenarios_wide()
        wprobe = common.run_jobs("sched_worker.py", [{"scenario": s, "schedules": [{"start": 0, "preempts": []}]} for s in wide], wd)
        for s, p in zip(wide, wprobe):
            n = p["steps"]
            # n = decision points of the whole first call (the second caller is then served from the store)
            fr = (0.5, 0.93, 0.96, 0.985) if quick else (0.1, 0.2, 0.3, 0.4, 0.5, 0.6, 0.7, 0.8, 0.9, 0.93, 0.95, 0.96, 0.97, 0.98, 0.985, 0.99)
            scheds = [{"start": s0, "preempts": [[max(2, int(n * x)), 1 - s0]]} for s0 in (0, 1) for x in fr]
            scheds += [{"random": r.randrange(1 << 30), "p": 0.0005} for _ in range(2 if quick else 10)]
            for i in range(0, len(scheds), 2):
                jobs.append({"scenario": s, "schedules": scheds[i:i + 2]})
        if not quick:
            for s in scenarios3():
                scheds = [{"random": r.randrange(1 << 30), "p": r.choice([0.05, 0.15, 0.4])} for _ in range(600)]
                scheds += bound1_schedules(3, 700, 5)
                for i in range(0, len(scheds), 100):
                    jobs.append({"scenario": s, "schedules": scheds[i:i + 100]})
        common.tick("schedules planned: %d jobs" % len(jobs))
        chunks = common.run_jobs_flat("sched_worker.py", jobs, wd, timeout=3000)
        traces = [t for t in chunks]
        common.tick("executed %d schedules" % len(traces))

        payload = [{"cfg": {"warm": t["cfg"]["warm"], "budget": t["cfg"]["budget"]}, "ev": t["ev"]} for t in traces]
        rej, vr = tlc.validate_traces("TraceSingleFlight", payload, wd, timeout=1500)
        rep.add_tlc(vr, "trace validation TraceSingleFlight")
        rep.cov["traces_validated_against_impl"] = len(traces)
        rep.cov["evaluations"] = len(traces)
        rep.cov["distinct_nontrivial"] = len({json.dumps(t["schedule"]) for t in traces if t["schedule"]})
        rep.cov["rule"] = ("one evaluation = one real multi-threaded execution under a fixed schedule; schedules = all with <= 1 "
                           "preemption at line granularity (quick: every 3rd decision point) + random (+ sampled 2-preemption and "
                           "3-thread schedules in thorough); distinct = different realised schedules")
        per = {}
        for t in traces:
            per[t["cfg"]["scenario"]] = per.get(t["cfg"]["scenario"], 0) + 1
        rep.cov["executions_per_scenario"] = per
        rep.sample({"scenario": traces[0]["cfg"]["scenario"], "sched": traces[0]["sched"], "steps": traces[0]["steps"],
                    "events": [e for e in traces[0]["ev"] if e["op"] != "Quiesce"]})
        for rj in rej:
            t = traces[rj["tid"] - 1]
            e = t["ev"][rj["prefix"]] if rj["prefix"] < len(t["ev"]) else {}
            facts = {"property": prop, "scenario": t["cfg"]["scenario"], "op": e.get("op"), "why": sorted(rj["why"]),
                     "exc": e.get("exc", ""), "msg": e.get("msg", "")}
            rep.violation(facts, {"scenario": t["cfg"]["scenario"], "sched": t["sched"], "events": t["ev"],
                                  "failed_clauses": sorted(rj["why"])})
        rep.assumptions += [
            "CPython hands control between managed threads only at the scheduler's yield points (one managed thread runs at a time)",
            "locks created by memento are replaced by cooperative locks of equal semantics",
        ]
    return rep.finish()
