"""C09: concurrent callers.  Threads.tla (PlusCal mechanism spec) is model-checked by TLC;
real threads are run on real backends under the deterministic scheduler (systematic schedules up
to a preemption bound + random ones) and every execution is validated by TLC against the
SingleFlight monitor."""
import json

from . import common, tlc
from .common import Report, Scratch, rng


def scenarios():
    out = []
    for backend, budget in (("fs", 300), ("fs", 0), ("memory", 0)):
        tag = "%s%s" % (backend, "+cache" if budget else "")
        base = {"backend": backend, "budget": budget}
        out.append(dict(base, name=tag + "/cold/same", warm=[], threads=[[["tf", 1]], [["tf", 1]]]))
        out.append(dict(base, name=tag + "/cold/diff", warm=[], threads=[[["tf", 1]], [["tf", 2]]]))
        out.append(dict(base, name=tag + "/warmstore-coldcache/same", warm=[["tf", 1]], cold_cache=True,
                        threads=[[["tf", 1]], [["tf", 1]]]))
        out.append(dict(base, name=tag + "/warmstore-coldcache/diff", warm=[["tf", 1], ["tf", 2]], cold_cache=True,
                        threads=[[["tf", 1]], [["tf", 2]]]))
        out.append(dict(base, name=tag + "/warmcache/same", warm=[["tf", 1]], threads=[[["tf", 1]], [["tf", 1]]]))
        out.append(dict(base, name=tag + "/warmcache/diff", warm=[["tf", 1], ["tf", 2]],
                        threads=[[["tf", 1]], [["tf", 2]]]))
        out.append(dict(base, name=tag + "/cold/nested-vs-leaf", warm=[], threads=[[["tg", 1]], [["tf", 1]]]))
        out.append(dict(base, name=tag + "/cold/batch-vs-leaf", warm=[], threads=[[["th", 1]], [["tf", 2]]]))
        out.append(dict(base, name=tag + "/cold/exception-same", warm=[], threads=[[["tf", 13]], [["tf", 13]]]))
        out.append(dict(base, name=tag + "/cold/same-call-two-spellings", warm=[], threads=[[["tf", 1]], [["tf", 1, "partial"]]]))
        if backend == "fs" and not budget:
            # the second caller has configured memento again: another backend object on the same store directory
            out.append(dict(base, name=tag + "/cold/same-two-backend-objects", warm=[], own_backend=True, threads=[[["tf", 1]], [["tf", 1]]]))
        if budget:
            # a result larger than the whole cache (tf(5): 340 bytes > 300): what the cache keeps for it while it is being stored
            out.append(dict(base, name=tag + "/cold/oversize-same", warm=[], threads=[[["tf", 5]], [["tf", 5]]]))
            out.append(dict(base, name=tag + "/warmstore-coldcache/oversize-same", warm=[["tf", 5]], cold_cache=True,
                            threads=[[["tf", 5]], [["tf", 5]]]))
    return out


def scenarios_wide():
    """one caller is inside a long body (140 other distinct invocations happen meanwhile) when a second caller asks for
    the same call: lock tables, caches and stacks see many entries come and go while an invocation is in progress"""
    return [dict(backend="fs", budget=0, name="fs/cold/long-body-same", warm=[], threads=[[["tw", 1]], [["tw", 1]]], max_steps=400000),
            dict(backend="memory", budget=0, name="memory/cold/long-body-same", warm=[], threads=[[["tw", 1]], [["tw", 1]]], max_steps=400000)]


def scenarios3():
    out = []
    for backend, budget in (("fs", 300), ("memory", 0)):
        tag = "%s%s" % (backend, "+cache" if budget else "")
        base = {"backend": backend, "budget": budget}
        out.append(dict(base, name=tag + "/3thr/cold/same", warm=[], threads=[[["tf", 1]], [["tf", 1]], [["tf", 1]]]))
        out.append(dict(base, name=tag + "/3thr/warmstore-coldcache/mixed", warm=[["tf", 1], ["tf", 2]], cold_cache=True,
                        threads=[[["tf", 1]], [["tf", 2]], [["tf", 1]]]))
        out.append(dict(base, name=tag + "/3thr/cold/evict", warm=[], threads=[[["tf", 2]], [["tf", 3]], [["tf", 1]]]))
    return out


VSIZE = {a: 33 + 60 * a + 7 for a in (1, 2, 3)}      # sys.getsizeof(tf(a)): the size the cache accounts for a value
MEMSIZE = 16                                          # sys.getsizeof(None): a memento-only entry


def mech_validate(rep, r, wd, quick):
    """code -> mechanism spec: executions of the leaf-call scenarios recorded at the backend calls and the per-call mutex
    must be behaviours of Threads.tla (TraceThreads.tla), down to the cache the real object shows at the end"""
    import os
    simple = [s for s in scenarios() + ([] if quick else scenarios3())
              if all(len(c) == 1 and c[0][0] == "tf" and c[0][1] in VSIZE for c in s["threads"])]
    jobs = []
    for s in simple:
        probe_n = 700
        three = len(s["threads"]) > 2      # (three threads: ~100 k states of TraceThreads per execution - a handful of them)
        scheds = [{"random": r.randrange(1 << 30), "p": r.choice([0.02, 0.05, 0.15, 0.4])} for _ in range(6 if quick or three else 60)]
        scheds += [{"start": s0, "preempts": [[r.randrange(2, probe_n), 1 - s0]]} for s0 in (0, 1) for _ in range(2 if quick else 1 if three else 20)]
        jobs.append({"scenario": dict(s, mech=True), "schedules": scheds})
    traces = common.run_jobs_flat("sched_worker.py", jobs, wd, timeout=3000)
    groups = {}
    for t in traces:
        m = t.get("mech")
        if m:
            groups.setdefault((len(m["cfg"]["want"]), t["cfg"]["budget"]), []).append((t, m))
    nrej, ntr, nev, notes = 0, 0, 0, []
    specdir = tlc._prepare(wd, "TraceThreads")
    for (nthr, budget), items in sorted(groups.items()):
        name = "TT_%d_%d" % (nthr, budget)
        with open(os.path.join(specdir, name + ".tla"), "w") as f:
            f.write("---- MODULE %s ----\nEXTENDS TraceThreads\nTKeys == {1, 2, 3}\nTVSize == <<%d, %d, %d>>\n====\n"
                    % (name, VSIZE[1], VSIZE[2], VSIZE[3]))
        with open(os.path.join(specdir, name + ".cfg"), "w") as f:
            f.write("CONSTANTS\n  Threads = {%s}\n  Keys <- TKeys\n  Wants <- NoSet\n  Warms <- NoSet\n  VSize <- TVSize\n  MemSize = %d\n"
                    "  Budget = %d\n  CacheAtomic = TRUE\n  defaultInitValue = defaultInitValue\nINIT TraceInit\nNEXT TraceNext\n"
                    "CONSTRAINT Open\nPOSTCONDITION TraceReport\nCHECK_DEADLOCK FALSE\n"
                    % (", ".join(str(i + 1) for i in range(nthr)), MEMSIZE, budget))
        payload = [m for _, m in items]
        rej, vr = tlc.validate_traces(name, payload, wd, cfg=name + ".cfg", timeout=1500)
        rep.add_tlc(vr, "mechanism trace validation TraceThreads (%d threads, budget %d: recorded executions are behaviours of Threads.tla)" % (nthr, budget))
        ntr += len(payload)
        nev += sum(len(m["ev"]) for m in payload)
        for rj in rej:
            nrej += 1
            t, m = items[rj["tid"] - 1]
            if len(notes) < 5:
                notes.append({"scenario": t["cfg"]["scenario"], "sched": t["sched"], "explained": rj["prefix"], "of": len(m["ev"]),
                              "around": m["ev"][max(0, rj["prefix"] - 4):rj["prefix"] + 2], "init": m["cfg"]})
    rep.cov["mechanism_traces"] = ntr
    rep.cov["mechanism_events"] = nev
    rep.cov["nonconformances"] = rep.cov.get("nonconformances", 0) + nrej
    if nrej:
        print("NONCONFORMANCE: %d of %d recorded executions are not behaviours of Threads.tla (informational)" % (nrej, ntr))
        for n_ in notes[:3]:
            print("  " + json.dumps(n_)[:700])
        rep.cov["nonconformance_notes"] = notes


def bound1_schedules(nthreads, nsteps, stride=1):
    """All schedules with at most one preemption (plus the non-preemptive ones)."""
    out = []
    for s in range(nthreads):
        out.append({"start": s, "preempts": []})
        for step in range(2, nsteps + 1, stride):
            for u in range(nthreads):
                if u != s:
                    out.append({"start": s, "preempts": [[step, u]]})
    return out


def run(prop, tier):
    rep = Report(prop, tier)
    quick = tier == "quick"
    r = rng(prop)
    with Scratch(prop) as wd:
        for cfg in (["Threads_atomic2.cfg", "Threads_nocache2.cfg"] if quick
                    else ["Threads_atomic2.cfg", "Threads_nocache2.cfg", "Threads_atomic3.cfg"]):
            mc = tlc.model_check("MCThreads", cfg, wd, timeout=600 if quick else 7200)
            rep.add_tlc(mc, "exhaustive: Threads.tla %s (single flight, correct value, no internal error, accounting, deadlock freedom)" % cfg)
        common.tick("model check done")

        scs = scenarios()
        # discover the number of decision points of each scenario with a non-preemptive run
        probe = common.run_jobs("sched_worker.py", [{"scenario": s, "schedules": [{"start": 0, "preempts": []}]} for s in scs], wd)
        jobs = []
        for s, p in zip(scs, probe):
            n = p["steps"]
            stride = (3 if s["backend"] == "memory" else 9) if quick else 1
            scheds = bound1_schedules(len(s["threads"]), n, stride)
            if quick:
                scheds = scheds[:: 1]
            scheds += [{"random": r.randrange(1 << 30), "p": r.choice([0.05, 0.15, 0.4])} for _ in range(25 if quick else 150)]
            # (cold scenarios whose callers can meet in one call: elsewhere nobody enters a body and the schedule is a 1-preemption one)
            if len(s["threads"]) == 2 and not s["warm"] and not s["name"].endswith("/diff"):
                # park one caller at every decision point of the first half (its own way to the body), let the other enter ITS body,
                # then let the parked one run on: the guards it still has to pass are passed while the other is computing
                scheds += [{"start": s0, "park": k, "other": 1 - s0} for s0 in (0, 1)
                           for k in range(2, n // 2 + 2, (1 if s["backend"] == "memory" else 3) if quick else 1)]
            if not quick:   # preemption bound 2, sampled
                for _ in range(400):
                    a, b = sorted(r.sample(range(2, n + 1), 2))
                    s0 = r.randrange(len(s["threads"]))
                    others = [u for u in range(len(s["threads"])) if u != s0]
                    u = r.choice(others)
                    scheds.append({"start": s0, "preempts": [[a, u], [b, s0]]})
            # split into chunks so that all cores are used
            chunk = max(20, len(scheds) // 8)
            for i in range(0, len(scheds), chunk):
                jobs.append({"scenario": s, "schedules": scheds[i:i + chunk]})
        wide = scenarios_wide()
        wprobe = common.run_jobs("sched_worker.py", [{"scenario": s, "schedules": [{"start": 0, "preempts": []}]} for s in wide], wd)
        for s, p in zip(wide, wprobe):
            n = p["steps"]
            # n = decision points of the whole first call (the second caller is then served from the store)
            fr = (0.5, 0.93, 0.96, 0.985) if quick else (0.1, 0.2, 0.3, 0.4, 0.5, 0.6, 0.7, 0.8, 0.9, 0.93, 0.95, 0.96, 0.97, 0.98, 0.985, 0.99)
            scheds = [{"start": s0, "preempts": [[max(2, int(n * x)), 1 - s0]]} for s0 in (0, 1) for x in fr]
            scheds += [{"random": r.randrange(1 << 30), "p": 0.0005} for _ in range(2 if quick else 10)]
            for i in range(0, len(scheds), 2):
                jobs.append({"scenario": s, "schedules": scheds[i:i + 2]})
        if not quick:
            for s in scenarios3():
                scheds = [{"random": r.randrange(1 << 30), "p": r.choice([0.05, 0.15, 0.4])} for _ in range(600)]
                scheds += bound1_schedules(3, 700, 5)
                for i in range(0, len(scheds), 100):
                    jobs.append({"scenario": s, "schedules": scheds[i:i + 100]})
        common.tick("schedules planned: %d jobs" % len(jobs))
        chunks = common.run_jobs_flat("sched_worker.py", jobs, wd, timeout=3000)
        traces = [t for t in chunks]
        common.tick("executed %d schedules" % len(traces))

        mech_validate(rep, r, wd, quick)
        common.tick("mechanism traces validated")
        payload = [{"cfg": {"warm": t["cfg"]["warm"], "budget": t["cfg"]["budget"]}, "ev": t["ev"]} for t in traces]
        rej, vr = tlc.validate_traces("TraceSingleFlight", payload, wd, timeout=1500)
        rep.add_tlc(vr, "trace validation TraceSingleFlight")
        rep.cov["traces_validated_against_impl"] = len(traces)
        rep.cov["evaluations"] = len(traces)
        rep.cov["distinct_nontrivial"] = len({json.dumps(t["schedule"]) for t in traces if t["schedule"]})
        rep.cov["rule"] = ("one evaluation = one real multi-threaded execution under a fixed schedule; schedules = all with <= 1 "
                           "preemption at line granularity (quick: every 3rd decision point) + park-until-the-other-is-in-its-body schedules "
                           "(cold same-call scenarios, every decision point of the first half) + random (+ sampled 2-preemption and "
                           "3-thread schedules in thorough); distinct = different realised schedules")
        per = {}
        for t in traces:
            per[t["cfg"]["scenario"]] = per.get(t["cfg"]["scenario"], 0) + 1
        rep.cov["executions_per_scenario"] = per
        rep.sample({"scenario": traces[0]["cfg"]["scenario"], "sched": traces[0]["sched"], "steps": traces[0]["steps"],
                    "events": [e for e in traces[0]["ev"] if e["op"] != "Quiesce"]})
        for rj in rej:
            t = traces[rj["tid"] - 1]
            e = t["ev"][rj["prefix"]] if rj["prefix"] < len(t["ev"]) else {}
            facts = {"property": prop, "scenario": t["cfg"]["scenario"], "op": e.get("op"), "why": sorted(rj["why"]),
                     "exc": e.get("exc", ""), "msg": e.get("msg", "")}
            rep.violation(facts, {"scenario": t["cfg"]["scenario"], "sched": t["sched"], "events": t["ev"],
                                  "failed_clauses": sorted(rj["why"])})
        rep.assumptions += [
            "CPython hands control between managed threads only at the scheduler's yield points (one managed thread runs at a time)",
            "locks created by memento are replaced by cooperative locks of equal semantics",
        ]
    return rep.finish()
