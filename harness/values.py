"""Typed result-term universe for C02 (documented result domain, recursively nested)."""

LEAVES = [
    {"t": "none"},
    {"t": "bool", "v": True}, {"t": "bool", "v": False},
    {"t": "int", "v": "0"}, {"t": "int", "v": "1"}, {"t": "int", "v": "-7"}, {"t": "int", "v": str(2 ** 70)},
    {"t": "float", "v": "1.0"}, {"t": "float", "v": "0.1"}, {"t": "float", "v": "nan"}, {"t": "float", "v": "inf"},
    {"t": "float", "v": "-0.0"}, {"t": "float", "v": "1e+16"},
    {"t": "str", "v": ""}, {"t": "str", "v": "abc"}, {"t": "str", "v": "naïve ☃ \U0001F600"}, {"t": "str", "v": "1"},
    {"t": "bytes", "v": ""}, {"t": "bytes", "v": "00ff10"},
    {"t": "date", "v": "2020-02-29"},
    {"t": "datetime", "v": "2020-02-29T00:00:00"}, {"t": "datetime", "v": "2021-03-04T05:06:07.000008"},
    {"t": "datetime", "v": "2021-03-04T05:06:07+00:00"}, {"t": "datetime", "v": "2021-03-04T05:06:07+05:30"},
    {"t": "pdtimestamp", "v": "2021-03-04T05:06:07"},
]
ARRAYS = [
    {"t": "nd", "dtype": "bool", "v": [True, False]}, {"t": "nd", "dtype": "int8", "v": [1, -2]},
    {"t": "nd", "dtype": "int16", "v": [1, 2]}, {"t": "nd", "dtype": "int32", "v": []},
    {"t": "nd", "dtype": "int64", "v": [2 ** 40]}, {"t": "nd", "dtype": "float32", "v": [1.5, 0.1]},
    {"t": "nd", "dtype": "float64", "v": [1.5, float("nan")]},
]
PANDAS = [
    {"t": "index", "v": [3, 1, 2]}, {"t": "index", "v": ["a", "b"]},
    {"t": "series", "v": [1, 2, 3]}, {"t": "series", "v": [1.5, None], "name": "s"},
    {"t": "series", "v": ["x", "y"], "index": ["i", "j"]}, {"t": "series", "v": [], "dtype": "float64"},
    {"t": "frame", "cols": {"a": [1, 2], "b": ["x", "y"]}}, {"t": "frame", "cols": {"a": [1.5, 2.5]}, "index": ["r1", "r2"]},
    {"t": "frame", "cols": {}},
]
EXCEPTIONS = [
    {"t": "exc", "cls": "ValueError", "rebuild": True, "kind": "exc"},
    {"t": "exc", "cls": "CustomErr", "rebuild": True, "kind": "exc"},
    {"t": "exc", "cls": "TwoArgErr", "rebuild": False, "kind": "exc"},
    {"t": "exc", "cls": "PickyErr", "rebuild": False, "kind": "exc"},
    {"t": "exc", "cls": "LocalErr", "rebuild": False, "kind": "exc"},
    {"t": "exc", "cls": "Outer.Inner", "rebuild": True, "kind": "exc"},          # a top-level class Inner exists as well
    {"t": "exc", "cls": "Outer.Deep.Err", "rebuild": True, "kind": "exc"},
    {"t": "exc", "cls": "LazyErr", "rebuild": True, "kind": "exc"},               # its module is unloaded between the calls
    {"t": "exc", "cls": "NotRecorded", "rebuild": True, "kind": "nonmemo"},
]


def universe(r, nested=200):
    """All leaves, arrays and pandas values; containers (depth <= 2) sampled with seed r."""
    flat = LEAVES + ARRAYS + PANDAS
    out = list(flat)
    out.append({"t": "list", "v": []})
    out.append({"t": "dict", "v": {}})
    out.append({"t": "list", "v": [{"t": "bool", "v": True}, {"t": "int", "v": "1"}, {"t": "float", "v": "1.0"}, {"t": "str", "v": "1"}]})
    out.append({"t": "dict", "v": {"g": {"t": "series", "v": [1, 2, 3]}, "b": {"t": "dict", "v": {"c": {"t": "str", "v": "d"}}}}})
    out.append({"t": "dict", "v": {"f": {"t": "frame", "cols": {"a": [1, 2]}}, "n": {"t": "none"}}})
    for _ in range(nested):
        depth2 = r.random() < 0.4
        pool = flat if not depth2 else flat + [x for x in out if x["t"] in ("list", "dict")][:20]
        n = r.randint(1, 3)
        if r.random() < 0.5:
            out.append({"t": "list", "v": [r.choice(pool) for _ in range(n)]})
        else:
            out.append({"t": "dict", "v": {"k%d" % i: r.choice(pool) for i in range(n)}})
    # partitions (in-memory / on-disk staging) of leaves and pandas values
    for kind in ("mem", "disk"):
        out.append({"t": "partition", "kind": kind, "v": {"a": {"t": "int", "v": "1"}, "b": {"t": "str", "v": "x"}}})
        out.append({"t": "partition", "kind": kind, "v": {}})
        out.append({"t": "partition", "kind": kind, "v": {"f": {"t": "frame", "cols": {"a": [1, 2]}}, "n": {"t": "none"},
                                                       "l": {"t": "list", "v": [{"t": "float", "v": "nan"}]}}})
    return out


def override_terms():
    """results published under a caller-chosen key (KeyOverrideResult) that other calls publish under too"""
    inner = [{"t": "str", "v": "report of day 1"}, {"t": "dict", "v": {"a": {"t": "int", "v": "1"}}}, {"t": "frame", "cols": {"a": [1, 2]}},
             {"t": "nd", "dtype": "int64", "v": [1, 2, 3]}, {"t": "list", "v": [{"t": "float", "v": "1.5"}]}]
    return [{"t": "ovr", "key": "reports/latest", "v": x} for x in inner] + [{"t": "ovr", "key": "runs/exp#7/summary", "v": inner[0]}]


def mon_cfg(term, mod):
    if term["t"] == "ovr":
        return dict(mon_cfg(term["v"], mod))
    if term["t"] == "exc":
        return {"kind": term["kind"], "cls": term["cls"], "rebuild": term["rebuild"], "mod": mod, "tag": "exc", "dtype": ""}
    return {"kind": "value", "cls": "", "rebuild": False, "mod": mod, "tag": term["t"], "dtype": term.get("dtype", "")}
