"""C11 worker: builds real mementos from abstract cases, encodes them as the filesystem metadata
source does (json.dumps(MementoCodec.encode_memento(m))), and reports the emitted text and the
outcome of decoding it again."""
import datetime
import json
import math
import sys

import twosigma.memento as m
from twosigma.memento.metadata import InvocationMetadata, Memento, ResultType
from twosigma.memento.reference import FunctionReferenceWithArguments
from twosigma.memento.resource import ResourceHandle
from twosigma.memento.serialization import MementoCodec
from twosigma.memento.types import VersionedDataSourceKey

import verif_args
from argkey_worker import build, typed_equal  # noqa: E402

FNS = {"s1": verif_args.s1, "s2": verif_args.s2, "s3": verif_args.s3, "s4": verif_args.s4, "target": verif_args.target}


def fn_of(spec):
    fn = FNS[spec["name"]]
    if spec.get("pargs") or spec.get("pkw"):
        fn = fn.partial(*[build(x) for x in spec.get("pargs", [])], **{k: build(v) for k, v in spec.get("pkw", [])})
    return fn


def fwa_of(spec):
    fn = fn_of(spec["fn"])
    ctx = {k: build(v) for k, v in spec.get("ctx", [])}
    return FunctionReferenceWithArguments(fn.fn_reference(), tuple(build(x) for x in spec.get("args", [])),
                                          {k: build(v) for k, v in spec.get("kw", [])}, ctx or None)


def strict_loads(text):
    def bad(c):
        raise ValueError("non-JSON constant " + c)
    return json.loads(text, parse_constant=bad)


def same_fnref(a, b):
    return (a.qualified_name == b.qualified_name and typed_equal(list(a.partial_args or ()), list(b.partial_args or ()))
            and typed_equal(dict(a.partial_kwargs or {}), dict(b.partial_kwargs or {})) and list(a.parameter_names) == list(b.parameter_names))


def same_fwa(a, b):
    return (same_fnref(a.fn_reference, b.fn_reference) and typed_equal(list(a.args), list(b.args))
            and typed_equal(dict(a.kwargs), dict(b.kwargs)) and typed_equal(dict(a.context_args or {}), dict(b.context_args or {})))


def same_time(a, b):
    if (a.tzinfo is None) != (b.tzinfo is None):
        return False
    return a == b


def run_case(c):
    out = {"id": c["id"], "exc": "", "text": "", "strict": False, "rtok": False, "hashok": False, "detail": ""}
    try:
        spec = c["m"]
        fwa = fwa_of(spec["fwa"])
        mem = Memento(
            time=datetime.datetime.fromisoformat(spec["time"]),
            invocation_metadata=InvocationMetadata(
                fn_reference_with_args=fwa, invocations=[fwa_of(x) for x in spec["invs"]],
                resources=[ResourceHandle(r["rtype"], r["url"], r["version"]) for r in spec["res"]],
                runtime=datetime.timedelta(seconds=float(spec["runtime"])), result_type=ResultType[spec["rtype"]]),
            function_dependencies={fn_of(d).fn_reference() for d in spec["deps"]},
            runner=dict(spec["runner"]), correlation_id=spec["corr"],
            content_key=(VersionedDataSourceKey(spec["ck"][0], spec["ck"][1]) if spec["ck"] else None))
        text = json.dumps(MementoCodec.encode_memento(mem))
        out["text"] = text
        try:
            doc = strict_loads(text)
            out["strict"] = True
        except ValueError as e:
            doc = json.loads(text)
            out["detail"] = str(e)
        back = MementoCodec.decode_memento(doc)
        im, bim = mem.invocation_metadata, back.invocation_metadata
        checks = {
            "time": same_time(mem.time, back.time),
            "fwa": same_fwa(im.fn_reference_with_args, bim.fn_reference_with_args),
            "invocations": len(im.invocations) == len(bim.invocations) and all(same_fwa(x, y) for x, y in zip(im.invocations, bim.invocations)),
            "resources": list(im.resources) == list(bim.resources),
            "runtime": im.runtime == bim.runtime,
            "result_type": im.result_type == bim.result_type,
            "dependencies": len(mem.function_dependencies) == len(back.function_dependencies) and all(
                any(same_fnref(x, y) for y in back.function_dependencies) for x in mem.function_dependencies),
            "runner": mem.runner == back.runner,
            "correlation_id": mem.correlation_id == back.correlation_id,
            "content_key": mem.content_key == back.content_key,
        }
        out["rtok"] = all(checks.values())
        if not out["rtok"]:
            out["detail"] = "differs: " + ",".join(k for k, v in checks.items() if not v)
        out["hashok"] = bim.fn_reference_with_args.arg_hash == im.fn_reference_with_args.arg_hash
    except Exception as e:
        out["exc"] = "%s: %s" % (type(e).__name__, str(e)[:200])
    return out


def main():
    with open(sys.argv[1]) as f:
        doc = json.load(f)
    res = {"traces": [run_case(c) for c in doc["jobs"]]}
    with open(sys.argv[2], "w") as f:
        json.dump(res, f)


if __name__ == "__main__":
    main()
