"""C05 / C06 / C07 / C19: storage stack.

spec/Store.tla (mechanism, checked exhaustively by TLC against the embedded monitors and its own
invariants)  ->  behaviours (TLC -simulate + random histories)  ->  replayed on the real backends
by store_worker.py  ->  recorded traces validated by TLC against the property monitor of the
property being checked (TraceDict / TraceLru / TraceCas / TraceRo).
"""
import json
import os

from . import common, tlc
from .common import Report, Scratch, rng

# value alphabet of MCStore (index -> concrete value spec); sizes are sys.getsizeof targets
MC_VALUES = {
    1: {"t": "bytes", "size": 100, "fill": 1},
    2: {"t": "nd", "size": 120, "fill": 2},
    3: {"t": "bytes", "size": 250, "fill": 3},
    4: {"t": "nd", "size": 500, "fill": 4},
    5: {"t": "none"},
}
MONITOR = {"C05": "TraceDict", "C06": "TraceLru", "C07": "TraceCas", "C19": "TraceRo"}


def ops_from_behaviour(beh):
    """Translate the `last` labels of a Store behaviour into driver operations."""
    ops, model = [], []
    for st in beh[1:]:
        e = st["state"]["last"]
        op = e["op"]
        o = {"op": op}
        if op == "Memoize":
            o.update(f=e["f"], h=e["h"], value=MC_VALUES[e["val"]], ovr=e["ovr"])
        elif op in ("ReadResult", "IsMemoized", "ForgetCall", "Gc"):
            o.update(f=e["f"], h=e["h"])
        elif op in ("GetMementos", "IsAllMemoized"):
            o["keys"] = e["keys"]
        elif op == "ForgetFunction":
            o["f"] = e["f"]
        elif op == "ListMementos":
            o.update(f=e["f"], limit=e["limit"])
        elif op == "WriteMetadata":
            o.update(f=e["f"], h=e["h"], mk=e["mk"], b=e["b"], wd=bool(e.get("wd")))
        elif op == "ReadMetadata":
            o.update(f=e["f"], h=e["h"], mk=e["mk"])
        elif op == "Reopen":
            o["ro"] = e["ro"]
        ops.append(o)
        model.append(e)
    return ops, model


def random_ops(r, n, nf=3, nh=3, budget=300, weak=True, ovr=True, meta=True, writes=True, wd_p=0.35):
    """Random storage history over adversarial names; biased towards cache pressure."""
    sizes = [40, 100, 120, budget // 2 + 20, budget - 20, budget, budget + 1, budget * 2]
    ops = []
    live = set()
    for _ in range(n):
        f, h = r.randint(1, nf), r.randint(1, nh)
        x = r.random()
        if x < 0.30 and writes:
            t = r.choice(["bytes", "bytes", "nd" if weak else "bytes", "str", "none"])
            spec = {"t": t, "size": r.choice(sizes), "fill": r.randint(0, 3)}
            ops.append({"op": "Memoize", "f": f, "h": h, "value": spec,
                        "ovr": (r.randint(1, 2) if ovr and r.random() < 0.2 else 0)})
            live.add((f, h))
        elif x < 0.45:
            if live and r.random() < 0.8:
                f, h = r.choice(sorted(live))
                ops.append({"op": "ReadResult", "f": f, "h": h})
            else:
                ops.append({"op": "IsMemoized", "f": f, "h": h})
        elif x < 0.55:
            ks = [[r.randint(1, nf), r.randint(1, nh)] for _ in range(r.randint(1, 3))]
            ops.append({"op": r.choice(["GetMementos", "GetMementos", "IsAllMemoized"]), "keys": ks})
        elif x < 0.62:
            ops.append({"op": "IsMemoized", "f": f, "h": h})
        elif x < 0.70 and writes:
            ops.append({"op": "ForgetCall", "f": f, "h": h})
            live.discard((f, h))
        elif x < 0.74 and writes:
            ops.append({"op": "ForgetFunction", "f": f})
            live = {k for k in live if k[0] != f}
        elif x < 0.76 and writes:
            ops.append({"op": "ForgetEverything"})
            live.clear()
        elif x < 0.82:
            ops.append({"op": "ListFunctions"})
        elif x < 0.88:
            ops.append({"op": "ListMementos", "f": f, "limit": r.choice([0, 0, 1, 2])})
        elif x < 0.93 and meta and writes and live:
            f, h = r.choice(sorted(live))
            ops.append({"op": "WriteMetadata", "f": f, "h": h, "mk": r.choice([1, 2, 3]), "b": r.randint(1, 3),
                        "wd": r.random() < wd_p})
        elif x < 0.97 and meta:
            ops.append({"op": "ReadMetadata", "f": f, "h": h, "mk": r.choice([1, 2, 3])})
        elif weak:
            ops.append({"op": "Gc", "f": f, "h": h})
        else:
            ops.append({"op": "Reopen"})
    return ops


def meta_ops(r, n, nf=2, nh=2, budget=300):
    """Histories centred on custom metadata: both storage forms (in the metadata store / next to the result
    object) written over each other, re-memoized and forgotten calls, reads after every change."""
    ops = []
    live = set()
    for f in range(1, nf + 1):
        ops.append({"op": "Memoize", "f": f, "h": 1, "value": {"t": "bytes", "size": 60, "fill": f}, "ovr": 0})
        live.add((f, 1))
    for _ in range(n):
        f, h, mk = r.randint(1, nf), r.randint(1, nh), r.choice([1, 1, 2, 2, 3])
        x = r.random()
        if x < 0.40 and live:
            f, h = r.choice(sorted(live))
            ops.append({"op": "WriteMetadata", "f": f, "h": h, "mk": mk, "b": r.randint(1, 3), "wd": r.random() < 0.5})
        elif x < 0.75:
            if live and r.random() < 0.8:
                f, h = r.choice(sorted(live))
            ops.append({"op": "ReadMetadata", "f": f, "h": h, "mk": mk})
        elif x < 0.85:
            ops.append({"op": "Memoize", "f": f, "h": h, "value": {"t": r.choice(["bytes", "str", "none"]), "size": r.choice([60, 100]),
                                                                   "fill": r.randint(0, 3)}, "ovr": 0})
            live.add((f, h))
        elif x < 0.92:
            ops.append({"op": "ForgetCall", "f": f, "h": h})
            live.discard((f, h))
        elif x < 0.95:
            ops.append({"op": "ForgetFunction", "f": f})
            live = {k for k in live if k[0] != f}
        elif live and r.random() < 0.5:
            f, h = r.choice(sorted(live))
            ops.append({"op": "ReadResult", "f": f, "h": h})
        else:
            ops.append({"op": r.choice(["ListFunctions", "IsMemoized", "Reopen"]), "f": f, "h": h})
    return ops


def forget_ops(r, budget=300):
    """Directed: a weakly referencable result the caller keeps - too big for the cache, or pushed out of it, or
    resident - is forgotten by each kind of forget without any look-up in between, then asked for in every way."""
    ops = []
    f, h = r.randint(1, 3), r.randint(1, 3)
    state = r.choice(["oversize", "evicted", "resident"])
    size = budget * 2 if state == "oversize" else budget - 40
    ops.append({"op": "Memoize", "f": f, "h": h, "value": {"t": "nd", "size": size, "fill": 1}, "ovr": 0})
    if state == "evicted":
        g = f % 3 + 1
        ops.append({"op": "Memoize", "f": g, "h": 1, "value": {"t": "bytes", "size": budget - 30, "fill": 2}, "ovr": 0})
    if r.random() < 0.3:
        ops.append({"op": "Memoize", "f": f, "h": h % 3 + 1, "value": {"t": "nd", "size": 80, "fill": 3}, "ovr": 0})
    ops.append(r.choice([{"op": "ForgetCall", "f": f, "h": h}, {"op": "ForgetFunction", "f": f}, {"op": "ForgetFunction", "f": f},
                         {"op": "ForgetEverything"}]))
    tail = [{"op": "IsMemoized", "f": f, "h": h}, {"op": "IsAllMemoized", "keys": [[f, h]]}, {"op": "GetMementos", "keys": [[f, h]]},
            {"op": "ListMementos", "f": f, "limit": 0}, {"op": "ListFunctions"}]
    r.shuffle(tail)
    ops += tail
    ops.append({"op": "Memoize", "f": f, "h": h, "value": {"t": "nd", "size": 90, "fill": 4}, "ovr": 0})
    ops += [{"op": "ReadResult", "f": f, "h": h}, {"op": "IsMemoized", "f": f, "h": h}]
    return ops


def recency_ops(r, budget=300):
    """Directed: several small entries of two functions are resident, some are used again (so that the recency order is no longer
    the order of writing), then an operation that must leave the order of the others alone happens (a forget of another function
    or call, a listing, metadata, a look-up of an absent call), then the cache is put under pressure entry by entry: the ones
    dropped must be the least recently used."""
    n = r.randint(3, 5)
    small = max(20, (budget - 40) // (n + 1))
    keys = [(1 + i % 2, 1 + i // 2) for i in range(n)]            # functions 1 and 2
    ops = [{"op": "Memoize", "f": f, "h": h, "value": {"t": "bytes", "size": small, "fill": i % 4}, "ovr": 0} for i, (f, h) in enumerate(keys)]
    ops.append({"op": "Memoize", "f": 3, "h": 1, "value": {"t": "bytes", "size": small, "fill": 2}, "ovr": 0})      # function 3: the bystander
    for f, h in r.sample(keys, r.randint(1, max(1, n - 1))):
        ops.append(r.choice([{"op": "ReadResult", "f": f, "h": h}, {"op": "IsMemoized", "f": f, "h": h},
                             {"op": "GetMementos", "keys": [[f, h]]}, {"op": "IsAllMemoized", "keys": [[f, h]]}]))
    ops.append(r.choice([{"op": "ForgetFunction", "f": 3}, {"op": "ForgetFunction", "f": 3}, {"op": "ForgetCall", "f": 3, "h": 1},
                         {"op": "ForgetCall", "f": 3, "h": 2}, {"op": "ListFunctions"}, {"op": "ListMementos", "f": 1, "limit": 0},
                         {"op": "WriteMetadata", "f": keys[0][0], "h": keys[0][1], "mk": 1, "b": 1, "wd": False},
                         {"op": "GetMementos", "keys": [[3, 3]]}, {"op": "ForgetFunction", "f": keys[0][0]}]))
    for i in range(r.randint(2, 4)):                               # pressure
        ops.append({"op": "Memoize", "f": 3, "h": 2 + i, "value": {"t": "bytes", "size": small + 10 * i, "fill": i}, "ovr": 0})
        f, h = r.choice(keys)
        ops.append({"op": "IsMemoized", "f": f, "h": h})
    for f, h in keys:
        ops.append({"op": "ReadResult", "f": f, "h": h})
    return ops


def mixed_lookup_ops(r):
    """Directed: one bulk look-up whose keys are in different states for THIS backend object - written through an earlier object
    (on disk, not cached here), written through this one (cached), absent - in every order, with duplicates"""
    keys = [[r.randint(1, 2), h] for h in (1, 2, 3)]
    sts = ["disk", "cached", "absent"]
    r.shuffle(sts)
    if r.random() < 0.3:
        sts[r.randint(0, 2)] = r.choice(["disk", "cached", "absent"])
    val = lambda i: {"t": "bytes", "size": 50 + 7 * i, "fill": i}
    ops = [{"op": "Memoize", "f": k[0], "h": k[1], "value": val(i), "ovr": 0} for i, (k, st) in enumerate(zip(keys, sts)) if st == "disk"]
    ops.append({"op": "Reopen"})
    ops += [{"op": "Memoize", "f": k[0], "h": k[1], "value": val(i + 3), "ovr": 0} for i, (k, st) in enumerate(zip(keys, sts)) if st == "cached"]
    order = list(keys)
    r.shuffle(order)
    if r.random() < 0.4:
        order.insert(r.randint(0, 3), r.choice(order))
    ops.append({"op": "GetMementos", "keys": order})
    ops.append({"op": "IsAllMemoized", "keys": order})
    for k in keys:
        ops.append({"op": r.choice(["IsMemoized", "ReadResult"]), "f": k[0], "h": k[1]})
    ops.append({"op": "GetMementos", "keys": order})
    return ops


def frame_ops(r, budget=300):
    """Directed (C06): a DataFrame far bigger than the budget, with rows that get lighter along the row order, among small
    entries: it is never resident, whatever the size estimate samples, and does not disturb the accounts of the others"""
    ops = []
    small = max(20, (budget - 40) // 4)
    for i in range(2):
        ops.append({"op": "Memoize", "f": 1, "h": 1 + i, "value": {"t": "bytes", "size": small, "fill": i}, "ovr": 0})
    ops.append({"op": "Memoize", "f": 2, "h": 1, "value": {"t": "frame", "rows": r.choice([130, 160, 220]), "fill": 1}, "ovr": 0})
    ops += [{"op": "IsMemoized", "f": 2, "h": 1}, {"op": "ReadResult", "f": 2, "h": 1}, {"op": "GetMementos", "keys": [[2, 1], [1, 1]]},
            {"op": "ReadResult", "f": 2, "h": 1}, {"op": "ReadResult", "f": 1, "h": 1}]
    ops.append({"op": "Memoize", "f": 1, "h": 3, "value": {"t": "bytes", "size": small, "fill": 3}, "ovr": 0})
    ops += [{"op": "Reopen"}, {"op": "ReadResult", "f": 2, "h": 1}, {"op": "ReadResult", "f": 1, "h": 2}, {"op": "IsMemoized", "f": 2, "h": 1}]
    return ops


def respell_ops(r):
    """the same bytes memoized by several calls through several backend objects (Reopen): they share one stored object"""
    ops = []
    vals = [{"t": "bytes", "size": 50 + 10 * i, "fill": i} for i in range(3)]
    for round_ in range(3):
        for _ in range(r.randint(2, 4)):
            f, h = r.randint(1, 3), r.randint(1, 3)
            ops.append({"op": "Memoize", "f": f, "h": h, "value": r.choice(vals), "ovr": 0})
            if r.random() < 0.5:
                ops.append({"op": "ReadResult", "f": f, "h": h})
        ops.append({"op": "GetMementos", "keys": [[r.randint(1, 3), r.randint(1, 3)] for _ in range(2)]})
        ops.append({"op": "Reopen"})
    ops.append({"op": "ListFunctions"})
    return ops


def ro_attempts(r, n, nf=3, nh=3):
    """Histories for a read-only backend: every kind of operation, writes included."""
    ops = random_ops(r, n, nf, nh, weak=False, writes=True)
    for o in ops:
        if o["op"] == "WriteMetadata":
            pass
    return ops


def compare_with_model(trace, model, notes):
    """Conformance (never a verdict): does the real backend follow Store.tla step by step?"""
    n = 0
    evs = [e for e in trace["ev"]]
    mi = [m for m in model if m["op"] != "Gc"]
    for idx, (a, m) in enumerate(zip(evs, mi)):
        diffs = []
        if a["op"] != m["op"]:
            diffs.append("op")
        else:
            for fld in ("ret", "reads", "exc"):
                if fld in m and fld in a and fld != "ret" and a[fld] != m[fld]:
                    diffs.append(fld)
            if m["op"] in ("GetMementos", "IsMemoized", "IsAllMemoized", "ListFunctions", "ListMementos", "ReadMetadata") \
                    and a.get("ret") != m.get("ret"):
                if m["op"] == "ListMementos" and m.get("limit") and len(a.get("ret") or []) == len(m.get("ret") or []):
                    pass          # which entries a limited listing returns is not determined
                elif m["op"] == "ReadMetadata" and any(p.get("op") == "WriteMetadata" and p.get("wd") and (p["f"], p["h"], p["mk"]) ==
                                                       (m["f"], m["h"], m["mk"]) for p in mi[:idx]):
                    break         # KF_MetaByObject (open finding): the model (constant off) describes the intended behaviour
                else:
                    diffs.append("ret")
            if "exc" in diffs and m["op"] == "ReadMetadata" and "ret" not in diffs:
                diffs.remove("exc")
            if isinstance(m.get("proj"), dict):
                if a["proj"]["lru"] != m["proj"]["lru"] or a["proj"]["usage"] != m["proj"]["usage"]:
                    diffs.append("proj")
        if diffs:
            n += 1
            if len(notes) < 5:
                notes.append({"op": m["op"], "diffs": diffs, "model": {k: m.get(k) for k in ("ret", "reads", "br", "proj")},
                              "actual": {k: a.get(k) for k in ("ret", "reads", "exc", "proj")}})
            break   # after the first divergence the model state is no longer comparable
    return n


def strip_for(module, trace):
    """Keep only the fields a monitor reads (smaller JSON, faster TLC)."""
    keep_common = {"op", "exc", "f", "h", "keys", "ret", "mid", "v", "limit", "mk", "b", "ro", "wd"}
    keep = {
        "TraceDict": keep_common,
        "TraceLru": keep_common | {"size", "reads", "cacheable", "proj"},
        "TraceCas": keep_common | {"cas", "mem", "ovr"},
        "TraceRo": keep_common | {"muts", "same"},
    }[module]
    evs = []
    for e in trace["ev"]:
        d = {k: v for k, v in e.items() if k in keep}
        d.setdefault("ro", False)
        evs.append(d)
    cfg = {"budget": trace["cfg"].get("budget", 0), "kind": trace["cfg"].get("kind", "fs")}
    if module == "TraceRo":
        cfg["damaged"] = bool(trace["cfg"].get("damage"))
        keep_pre = {"op", "f", "h", "mid", "v", "mk", "b", "exc"}
        cfg["pre"] = [{k: v for k, v in e.items() if k in keep_pre} for e in trace["cfg"].get("pre", [])]
    return {"cfg": cfg, "ev": evs}


def wd_meta_then_rememoized(trace, upto, e):
    """Open finding C05-metadata-with-data-keyed-by-result-object: the metadata key read by e was last written
    `with the data`, and since then either the call was memoized again, or another call whose result is the
    same stored object wrote the same metadata key with the data (the value lives next to the object)."""
    if e.get("op") != "ReadMetadata":
        return False
    me = (e["f"], e["h"])
    cur = {}          # call -> value id of its current result
    state = None      # None | "plain" | "wd" | "displaced"
    for p in trace["ev"][:upto]:
        if p.get("exc"):
            continue
        if p["op"] == "Memoize":
            cur[(p["f"], p["h"])] = p.get("v")
            if (p["f"], p["h"]) == me and state == "wd":
                state = "displaced"
        elif p["op"] == "WriteMetadata" and p["mk"] == e["mk"]:
            if (p["f"], p["h"]) == me:
                state = "wd" if p.get("wd") else "plain"
            elif p.get("wd") and state == "wd" and cur.get((p["f"], p["h"])) is not None and cur.get((p["f"], p["h"])) == cur.get(me):
                state = "displaced"
        elif (p["op"] == "ForgetCall" and (p["f"], p["h"]) == me) or (p["op"] == "ForgetFunction" and p["f"] == e["f"]) \
                or p["op"] == "ForgetEverything":
            state = None
        if p["op"] == "ForgetCall":
            cur.pop((p["f"], p["h"]), None)
        elif p["op"] == "ForgetFunction":
            cur = {k: v for k, v in cur.items() if k[0] != p["f"]}
        elif p["op"] == "ForgetEverything":
            cur = {}
    return state == "displaced"


def event_facts(prop, trace, rej):
    e = trace["ev"][rej["prefix"]] if rej["prefix"] < len(trace["ev"]) else {}
    return {"wd_meta_then_rememoized": wd_meta_then_rememoized(trace, rej["prefix"], e),"property": prop, "kind": trace["cfg"].get("kind"), "budget": trace["cfg"].get("budget", 0),
            "sepmeta": bool(trace["cfg"].get("sepmeta")), "op": e.get("op"), "why": sorted(rej["why"]),
            "exc": e.get("exc", ""), "excmsg": e.get("excmsg", ""), "step": rej["prefix"] + 1}


def run(prop, tier):
    rep = Report(prop, tier)
    quick = tier == "quick"
    r = rng(prop)
    with Scratch(prop) as wd:
        # 1. the design: Store refines the monitors and keeps its invariants
        mc = tlc.model_check("MCStore", "MCStore_quick.cfg" if quick else "MCStore_thorough.cfg", wd,
                             timeout=600 if quick else 7200)
        rep.add_tlc(mc, "exhaustive: Store.tla refines DictMon/LruMon/RoMon + invariants")

        common.tick("model check done")
        jobs, models = [], []
        # 2. behaviours of the mechanism spec (spec -> code)
        nsim = 40 if quick else 400
        depth = 25 if quick else 40
        for cfgname, jcfg in (("MCStore_sim.cfg", {"kind": "fs", "budget": 300}),
                              ("MCStore_simsep.cfg", {"kind": "fs", "budget": 300, "sepmeta": True}),
                              ("MCStore_simnocache.cfg", {"kind": "fs", "budget": 0})):
            if prop == "C06" and jcfg["budget"] == 0:
                continue
            behs, sr = tlc.simulate("MCStore", cfgname, wd, num=nsim, depth=depth, seed=common.seed() + 11, only={"last"})
            rep.add_tlc(sr, "simulate %s" % cfgname)
            for b in behs:
                ops, model = ops_from_behaviour(b)
                if prop == "C19":
                    continue
                ops = [o for o in ops if not (o["op"] == "Reopen" and o.get("ro"))]
                # read-only phases are replayed by the C19 jobs below; here Reopen(TRUE) is cut off
                cut = next((i for i, m in enumerate(model) if m["op"] == "Reopen" and m["ro"]), None)
                if cut is not None:
                    ops, model = ops_from_behaviour(b[: cut + 1])
                c = dict(jcfg)
                if prop == "C07":
                    c["cas"] = True
                jobs.append({"cfg": c, "ops": ops, "id": "sim"})
                models.append(model)
        # 3. random histories (code -> spec): adversarial names, more sizes, other backends
        nrand = 120 if quick else 1500
        ln = 30 if quick else 45
        rand_cfgs = [{"kind": "fs", "budget": 300}, {"kind": "fs", "budget": 64}, {"kind": "fs", "budget": 4096},
                     {"kind": "fs", "budget": 300, "sepmeta": True}, {"kind": "fs", "budget": 0},
                     {"kind": "memory", "budget": 0}]
        if prop == "C06":
            rand_cfgs = [c for c in rand_cfgs if c["budget"]]
        if prop == "C07":
            rand_cfgs = [dict(c, cas=True) for c in rand_cfgs if c["kind"] == "fs"]
            nrand = 60 if quick else 600
            ln = 20 if quick else 30
        if prop == "C19":
            nrand = 0
        for i in range(nrand):
            c = dict(rand_cfgs[i % len(rand_cfgs)])
            if prop in ("C05", "C06") and i % 5 == 3 and c["kind"] == "fs" and c["budget"]:
                ops = forget_ops(r, c["budget"])
            elif prop == "C06" and i % 5 == 1 and c["budget"] >= 300:
                ops = recency_ops(r, c["budget"])
            elif prop == "C06" and i % 10 == 7:
                ops = frame_ops(r, c["budget"])
            elif prop == "C05" and i % 7 == 4:
                ops = meta_ops(r, ln, budget=c["budget"] or 300)
            elif prop == "C05" and i % 7 == 6 and c["kind"] == "fs":
                ops = mixed_lookup_ops(r) + mixed_lookup_ops(r)
            else:
                ops = random_ops(r, ln, budget=c["budget"] or 300, weak=(i % 3 != 0))
            if prop in ("C07", "C05") and i % 4 == 2 and c["kind"] == "fs":
                # the store reached through differently spelled paths by successive backend objects, with values written twice
                c["respell"] = True
                ops = respell_ops(r)
            jobs.append({"cfg": c, "ops": ops, "id": "rand"})
            models.append(None)
        if prop == "C19":
            nro = 80 if quick else 1200
            for i in range(nro):
                c = {"kind": "fs", "budget": [0, 300][i % 2], "sepmeta": (i % 4 >= 2), "reopen_ro": True,
                     "ro_via_config": [False, False, True, "arg_over_config"][(i // 4) % 4]}
                if i % 5 == 4:
                    # what a writer that died left behind: one pointer file of the store cut short (empty, or a few bytes); what
                    # the calls then answer is not the subject here, only that nothing is written through the read-only backend
                    c["damage"] = 1 + i // 5
                pre = random_ops(r, 14, weak=False, wd_p=0)     # (the open C05 finding on with-data metadata is not C19's subject)
                ops = random_ops(r, 25, weak=False)
                jobs.append({"cfg": c, "pre": pre, "ops": ops, "id": "ro"})
                models.append(None)
            for i in range(10 if quick else 100):
                jobs.append({"cfg": {"kind": "null", "budget": 0}, "ops": random_ops(r, 20, weak=False), "id": "null"})
                models.append(None)

        common.tick("behaviours generated: %d jobs" % len(jobs))
        traces = common.run_jobs("store_worker.py", jobs, wd)
        common.tick("replayed")
        nonconf, notes = 0, []
        for t, m in zip(traces, models):
            if m is not None:
                nonconf += compare_with_model(t, m, notes)
        if nonconf:
            print("NONCONFORMANCE: %d replayed Store.tla behaviour(s) diverge from the model (informational)" % nonconf)
            for n_ in notes[:3]:
                print("  " + json.dumps(n_)[:400])

        module = MONITOR[prop]
        payload = [strip_for(module, t) for t in traces]
        rej, vr = tlc.validate_traces(module, payload, wd, timeout=1200)
        rep.add_tlc(vr, "trace validation %s" % module)
        common.tick("validated")
        rep.cov["traces_validated_against_impl"] = len(payload)
        nev = sum(len(t["ev"]) for t in traces)
        rep.cov["evaluations"] = nev
        distinct = set()
        for t in traces:
            distinct.add(json.dumps([(e["op"], e.get("f"), e.get("h"), e.get("exc"), e.get("ret")) for e in t["ev"]]))
        rep.cov["distinct_nontrivial"] = len(distinct)
        rep.cov["rule"] = ("behaviours = TLC -simulate runs of Store.tla (3 configs) + seeded random histories over "
                           "prefix-related function names, sizes around the budget, override keys, metadata; "
                           "distinct = different (op,args,result) sequences; each event is one monitor step")
        rep.cov["nonconformances"] = nonconf
        rep.cov["nonconformance_notes"] = notes[:3]
        ops_seen = {}
        for t in traces:
            for e in t["ev"]:
                ops_seen[e["op"]] = ops_seen.get(e["op"], 0) + 1
        rep.cov["ops_exercised"] = ops_seen
        rep.sample({"cfg": traces[0]["cfg"], "events": [{k: v for k, v in e.items() if k in ("op", "f", "h", "ret", "exc", "keys", "mid", "v")}
                                                          for e in traces[0]["ev"][:12]]})
        if len(traces) > 1:
            t = traces[-1]
            rep.sample({"cfg": {k: v for k, v in t["cfg"].items() if k != "pre"},
                        "events": [{k: v for k, v in e.items() if k in ("op", "f", "h", "ret", "exc", "keys", "mid", "v", "muts")}
                                   for e in t["ev"][:12]]})
        if prop == "C19":
            from . import check_runner
            nv, ne = check_runner.run_c19_functions(rep, r, wd, quick)
            rep.cov["traces_validated_against_impl"] += nv
            rep.cov["evaluations"] += ne
        for rj in rej:
            t = traces[rj["tid"] - 1]
            facts = event_facts(prop, t, rj)
            rep.violation(facts, {"job": jobs[rj["tid"] - 1], "accepted_prefix": rj["prefix"],
                                  "failing_event": t["ev"][rj["prefix"]] if rj["prefix"] < len(t["ev"]) else None,
                                  "failed_clauses": sorted(rj["why"]), "monitor_state": repr(rj["state"])})
        if prop in ("C05", "C19"):
            # the executions the maintainers wrote: the repository's own test suite, recorded and validated
            from . import suite_rec
            suite_rec.validate_suite(rep, wd, prop)
            common.tick("repository test suite validated")
        rep.assumptions += [
            "value equality is decided by a Python digest (pickle/ndarray bytes), sizes by sys.getsizeof",
            "cache projection read from MemoryCache.{lru_deque,cache,memory_usage} (attributes the suite inspects)",
            "TLC exhaustive run is bounded: see tlc_runs[0].cmd / MCStore_*.cfg constants",
        ]
    return rep.finish()
