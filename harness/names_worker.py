"""C12 naming worker: for each (cluster, function, version) builds the real memento function,
parses its qualified name, memoizes one call and looks the entry up again every way."""
import json
import os
import shutil
import sys
import tempfile

import twosigma.memento as m
from twosigma.memento.configuration import ConfigurationRepository, Environment, FunctionCluster
from twosigma.memento.reference import FunctionReference
from twosigma.memento.storage_filesystem import FilesystemStorageBackend
from twosigma.memento.storage_memory import MemoryStorageBackend

import verif_names
import verif_side

CLUSTERS = ["vn", "c-1.x_y", ".hid_1"]


def chars(s):
    return [c for c in (s or "")]


def run_job(job):
    base = tempfile.mkdtemp(prefix="verif_names_")
    old = Environment.get()
    try:
        def storage(name):
            if job["backend"] == "memory":
                return MemoryStorageBackend()
            return FilesystemStorageBackend(path=os.path.join(base, name))
        Environment.set(Environment(name="verif", base_dir=base, repos=[ConfigurationRepository(
            name="r", clusters={c: FunctionCluster(name=c, storage=storage(c)) for c in CLUSTERS})]))
        events = []
        for case in job["cases"]:
            cluster, fname, version = case["cluster"], case["fn"], case["version"]
            plain = verif_names.PLAIN[fname]
            try:
                fn = m.MementoFunction(fn=plain, cluster_name=cluster, version=version)
                # the module attribute must hold this very function for look-ups by name
                if fname == "fa":
                    setattr(verif_names, "fa", fn)
                else:
                    setattr(verif_names.Cls, "meth", fn)
                qn = fn.fn_reference().qualified_name
            except Exception as e:
                events.append({"op": "Parse", "name": [], "cluster": [], "module": [], "function": [], "hasver": False, "version": [],
                               "exc": "construct: %s: %s" % (type(e).__name__, str(e)[:120]), "case": case})
                continue
            ev = {"op": "Parse", "name": chars(qn), "cluster": [], "module": [], "function": [], "hasver": False, "version": [],
                  "exc": "", "case": case, "qn": qn}
            try:
                parts = FunctionReference.parse_qualified_name(qn)
                ev["cluster"] = chars(parts["cluster"])
                ev["module"] = chars(parts["module"])
                ev["function"] = chars(parts["function"])
                ev["hasver"] = parts["version"] is not None
                ev["version"] = chars(parts["version"])
            except Exception as e:
                ev["exc"] = "%s: %s" % (type(e).__name__, str(e)[:120])
            events.append(ev)

            def find(by, thunk):
                e2 = {"op": "Find", "by": by, "ok": False, "exc": "", "case": case, "qn": qn}
                try:
                    e2["ok"] = bool(thunk())
                except Exception as e:
                    e2["exc"] = "%s: %s" % (type(e).__name__, str(e)[:160])
                events.append(e2)

            verif_side.log.reset()
            try:
                fn(1)
            except Exception as e:
                events.append({"op": "Find", "by": "first-call", "ok": False, "exc": "%s: %s" % (type(e).__name__, str(e)[:160]), "case": case, "qn": qn})
                continue
            verif_side.log.reset()

            def second_call():
                r = fn(1)
                return r == [fname if fname == "fa" else "meth", 1] and not verif_side.log.take()
            find("call", second_call)
            find("memento", lambda: fn.memento(1) is not None)
            find("list_mementos", lambda: len(fn.list_mementos()) == 1)
            find("list_functions", lambda: qn in [x.qualified_name for x in m.list_memoized_functions(cluster)])
            try:
                fn.forget_all()
            except Exception:
                pass
        return {"backend": job["backend"], "ev": events}
    finally:
        Environment.set(old)
        shutil.rmtree(base, ignore_errors=True)


def main():
    with open(sys.argv[1]) as f:
        doc = json.load(f)
    res = {"traces": [run_job(j) for j in doc["jobs"]]}
    with open(sys.argv[2], "w") as f:
        json.dump(res, f)


if __name__ == "__main__":
    main()
