"""C02 value-domain worker: one result term x backend x modifier, behaviour
Call, Call, Memento, Forget, Call, Call."""
import datetime
import json
import math
import os
import shutil
import sys
import tempfile

import numpy as np
import pandas as pd

import twosigma.memento as m
from twosigma.memento.configuration import ConfigurationRepository, Environment, FunctionCluster
from twosigma.memento.partition import InMemoryPartition, Partition
from twosigma.memento.storage_filesystem import FilesystemStorageBackend, OnDiskPartition
from twosigma.memento.storage_memory import MemoryStorageBackend

import verif_side
import verif_val


def build(t):
    k = t["t"]
    if k == "none":
        return None
    if k == "bool":
        return bool(t["v"])
    if k == "int":
        return int(t["v"])
    if k == "float":
        return float(t["v"])
    if k == "str":
        return t["v"]
    if k == "bytes":
        return bytes.fromhex(t["v"])
    if k == "date":
        return datetime.date.fromisoformat(t["v"])
    if k == "datetime":
        return datetime.datetime.fromisoformat(t["v"])
    if k == "pdtimestamp":
        return pd.Timestamp(t["v"])
    if k == "list":
        return [build(x) for x in t["v"]]
    if k == "dict":
        return {kk: build(x) for kk, x in t["v"].items()}
    if k == "nd":
        return np.array(t["v"], dtype=t["dtype"])
    if k == "index":
        return pd.Index(t["v"])
    if k == "series":
        return pd.Series(t["v"], index=t.get("index"), name=t.get("name"), dtype=t.get("dtype"))
    if k == "frame":
        return pd.DataFrame({c: v for c, v in t["cols"].items()}, index=t.get("index"))
    if k == "ovr":            # the value the caller receives; the body wraps it in KeyOverrideResult (see run_job)
        return build(t["v"])
    if k == "partition":
        vals = {kk: build(x) for kk, x in t["v"].items()}
        if t.get("kind") == "disk":
            p = OnDiskPartition()
            for kk, vv in vals.items():
                p[kk] = vv
            return p
        return InMemoryPartition(vals)
    raise ValueError(k)


def typed_equal(a, b):
    if isinstance(b, Partition):
        if not isinstance(a, Partition):
            return False
        try:
            if sorted(a.list_keys()) != sorted(b.list_keys()):
                return False
            return all(typed_equal(a.get(k), b.get(k)) for k in b.list_keys())
        except Exception:
            return False
    if type(a) is not type(b):
        return False
    if a is None:
        return True
    if isinstance(a, float):
        return (math.isnan(a) and math.isnan(b)) or (a == b and math.copysign(1, a) == math.copysign(1, b))
    if isinstance(a, datetime.datetime):
        return a == b and (a.tzinfo is None) == (b.tzinfo is None) and a.utcoffset() == b.utcoffset()
    if isinstance(a, (bool, int, str, bytes, datetime.date)):
        return a == b
    if isinstance(a, list):
        return len(a) == len(b) and all(typed_equal(x, y) for x, y in zip(a, b))
    if isinstance(a, dict):
        return list(a.keys()) == list(b.keys()) and all(typed_equal(a[k], b[k]) for k in a)
    if isinstance(a, np.ndarray):
        return a.dtype == b.dtype and a.shape == b.shape and bool(np.array_equal(a, b, equal_nan=a.dtype.kind == "f"))
    if isinstance(a, pd.Index):
        return a.dtype == b.dtype and a.equals(b)
    if isinstance(a, pd.Series):
        return a.dtype == b.dtype and a.name == b.name and a.index.equals(b.index) and a.equals(b)
    if isinstance(a, pd.DataFrame):
        return list(a.columns) == list(b.columns) and a.dtypes.equals(b.dtypes) and a.index.equals(b.index) and a.equals(b)
    return a == b


EXC = {
    "ValueError": (lambda msg: ValueError(msg)),
    "CustomErr": (lambda msg: verif_val.CustomErr(msg)),
    "TwoArgErr": (lambda msg: verif_val.TwoArgErr(msg, "second")),
    "PickyErr": (lambda msg: verif_val.PickyErr(msg)),
    "LocalErr": (lambda msg: verif_val.make_local_error(msg)),
    "NotRecorded": (lambda msg: verif_val.NotRecorded(msg)),
    "Outer.Inner": (lambda msg: verif_val.Outer.Inner(msg)),
    "Outer.Deep.Err": (lambda msg: verif_val.Outer.Deep.Err(msg)),
    "LazyErr": (lambda msg: __import__("verif_val_lazy").LazyErr(msg)),      # (imported where it is raised, nowhere else)
}
_n = [0]


def run_job(job):
    base = tempfile.mkdtemp(prefix="verif_val_")
    old = Environment.get()
    try:
        cfg = job["cfg"]
        if cfg["backend"] == "memory":
            storage = MemoryStorageBackend()
        else:
            mb = (cfg["budget"] / 1048576.0) if cfg.get("budget") else None
            storage = FilesystemStorageBackend(path=os.path.join(base, "data"), memory_cache_mb=mb)
        Environment.set(Environment(name="verif", base_dir=base, repos=[ConfigurationRepository(
            name="r", clusters={"vv": FunctionCluster(name="vv", storage=storage)})]))
        _n[0] += 1
        i = _n[0] * 1000 + os.getpid() % 1000
        term = job["term"]
        if term["t"] == "exc":
            msg = "message-%d with é and : colon" % i
            verif_val.TABLE[i] = lambda: (_ for _ in ()).throw(EXC[term["cls"]](msg))
            expected = None
        elif term["t"] == "ovr":
            from twosigma.memento.result import KeyOverrideResult
            msg = ""
            verif_val.TABLE[i] = lambda: KeyOverrideResult(build(term["v"]), term["key"])
            verif_val.TABLE[i + 500000] = lambda: KeyOverrideResult({"other": "call", "n": i}, term["key"])   # another call, same key
            expected = build(term)
        else:
            msg = ""
            verif_val.TABLE[i] = lambda: build(term)
            expected = build(term)
        fn = verif_val.vf
        if cfg["mod"] == "ignore":
            fn = fn.ignore_result()
        elif cfg["mod"] == "local":
            fn = fn.force_local()
        events = []
        kept = []               # the caller keeps every value it was handed
        for op in job["ops"]:
            verif_side.log.reset()
            if op == "Call":
                ev = {"op": "Call", "raised": False, "excls": "", "msgok": True, "same": False, "isnone": False, "detail": ""}
                try:
                    r = fn(i)
                    kept.append(r)
                    ev["isnone"] = r is None
                    try:
                        ev["same"] = bool(typed_equal(r, expected))
                    except Exception as e:
                        ev["same"] = False
                        ev["detail"] = "compare: %s: %s" % (type(e).__name__, str(e)[:100])
                    if not ev["same"]:
                        ev["detail"] = ev["detail"] or ("got %s %r" % (type(r).__name__, r))[:200]
                except Exception as e:
                    ev["raised"] = True
                    ev["excls"] = type(e).__qualname__ if "." in type(e).__qualname__ and "<locals>" not in type(e).__qualname__ \
                        else type(e).__name__
                    ev["msgok"] = msg != "" and msg in str(e)
                    ev["detail"] = str(e)[:160]
                ev["n"] = sum(1 for it in verif_side.log.take() if it[0] == "Body")
            elif op == "Disturb":        # a different call publishes a different result under the same override key
                ev = {"op": "Disturb", "exc": ""}
                try:
                    verif_val.vf(i + 500000)
                except Exception as e:
                    ev["exc"] = type(e).__name__
            elif op == "Unload":         # what a later process looks like: the module of the exception class is not imported (yet)
                ev = {"op": "Reopen", "exc": ""}
                sys.modules.pop("verif_val_lazy", None)
                if cfg["backend"] != "memory":
                    mb = (cfg["budget"] / 1048576.0) if cfg.get("budget") else None
                    storage = FilesystemStorageBackend(path=os.path.join(base, "data"), memory_cache_mb=mb)
                    Environment.set(Environment(name="verif", base_dir=base, repos=[ConfigurationRepository(
                        name="r", clusters={"vv": FunctionCluster(name="vv", storage=storage)})]))
                    kept.clear()
            elif op == "Reopen":         # a new backend object on the same store: nothing cached
                ev = {"op": "Reopen", "exc": ""}
                if cfg["backend"] != "memory":
                    mb = (cfg["budget"] / 1048576.0) if cfg.get("budget") else None
                    storage = FilesystemStorageBackend(path=os.path.join(base, "data"), memory_cache_mb=mb)
                    Environment.set(Environment(name="verif", base_dir=base, repos=[ConfigurationRepository(
                        name="r", clusters={"vv": FunctionCluster(name="vv", storage=storage)})]))
                    kept.clear()
            elif op == "Memento":
                ev = {"op": "Memento", "rtype": "none"}
                try:
                    mem = verif_val.vf.memento(i)
                    if mem is not None:
                        ev["rtype"] = mem.invocation_metadata.result_type.name
                except Exception as e:
                    ev["rtype"] = "error:" + type(e).__name__
            elif op == "ForgetAll":      # forget_all(): every call of the function, this one included - the monitor sees a Forget
                ev = {"op": "Forget", "exc": ""}
                try:
                    verif_val.vf.forget_all()
                except Exception as e:
                    ev["exc"] = type(e).__name__
            else:
                ev = {"op": "Forget", "exc": ""}
                try:
                    verif_val.vf.forget(i)
                except Exception as e:
                    ev["exc"] = type(e).__name__
            events.append(ev)
        verif_val.TABLE.pop(i, None)
        verif_val.TABLE.pop(i + 500000, None)
        return {"cfg": cfg, "term": term, "ev": events}
    finally:
        Environment.set(old)
        shutil.rmtree(base, ignore_errors=True)


def main():
    with open(sys.argv[1]) as f:
        doc = json.load(f)
    out = {"traces": [run_job(j) for j in doc["jobs"]]}
    with open(sys.argv[2], "w") as f:
        json.dump(out, f)


if __name__ == "__main__":
    main()
