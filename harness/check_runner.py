"""C02 / C10 / C15 / C16 (and the function-level half of C19): runner-level properties over
generated call-tree programs.  Runner.tla (operational mechanism spec: call stack, batch pre-check,
propagate_dependencies, context inheritance) is model-checked against the reference semantics
ProgSem; random programs become real memento modules, random root-operation histories are executed
on real backends, and every recorded event is validated by TLC against RunnerMon (TraceRunner)."""
import json

from . import common, tlc, progs
from .common import Report, Scratch, rng

BACKENDS = [{"backend": "fs", "budget": 0}, {"backend": "fs", "budget": 2048}, {"backend": "memory", "budget": 0}]


def make_jobs(prop, r, n, quick):
    jobs = []
    for i in range(n):
        nfn = r.choice([2, 3, 3, 4])
        feats = {"C02": ("call", "batch", "res", "raise", "bad"), "C10": ("call", "call", "batch", "res", "raise"),
                 "C15": ("call", "batch", "batch", "raise", "bad"), "C16": ("call", "call", "batch", "raise")}.get(prop, ("call", "batch", "res", "raise"))
        if i % 2 == 1:
            feats = feats + ("mods",)        # inner calls and batches made through ignore_result() / force_local()
        p = progs.random_prog(r, nfn=nfn, features=feats)
        nops = r.randint(5, 9)
        ops = progs.random_ops(r, nfn, nops, ctx=(prop in ("C16", "C10") or r.random() < 0.3), batch=(prop != "C16" or r.random() < 0.3),
                               par=(0.25 if prop in ("C02", "C10", "C16") and i % 3 == 0 else 0.0))
        if prop == "C15":
            ops = [o for o in ops if o["op"] != "Call" or r.random() < 0.5]
        if prop == "C16" and r.random() < 0.5:
            ops.append({"op": "Prevent", "f": r.randint(1, nfn), "a": r.randint(0, 2), "c": r.choice(progs.CTXS),
                        "via": r.choice(["root", "nested"])})      # nested: the prevented call is made from inside a memento function
        if prop in ("C02", "C10") and i % 3 == 0:
            ops += directed_par_ops(r, p)
        cfg = dict(BACKENDS[i % len(BACKENDS)])
        if cfg.get("backend") == "fs" and cfg.get("budget"):
            # "Reopen": a new backend object on the same store (another worker / a later process): its cache is cold, so calls
            # memoized before it are on disk only, calls made after it are cached - no event, nothing the monitor needs to know
            if prop == "C15":
                ops = ops[: len(ops) // 2] + mixed_state_batch(r, nfn) + ops[len(ops) // 2:] + mixed_state_batch(r, nfn)
            else:
                for _ in range(r.randint(0, 2)):
                    ops.insert(r.randint(0, len(ops)), {"op": "Reopen"})
        jobs.append({"prog": p, "cfg": cfg, "ops": ops, "amax": 2})
    return jobs


def directed_par_ops(r, prog):
    """Directed: a root call and, at the same time from another thread, the call one of its body steps makes (same key): the nested
    call then misses the bulk pre-check, waits for the per-call mutex and is resolved by the look-up inside it - under several
    schedules, each from an empty store"""
    cands = []
    for f, fd in enumerate(prog, start=1):
        for s in fd["body"]:
            if s["t"] == "call" and prog[s["g"] - 1]["body"]:
                cands.append((f, s))
    if not cands:
        return []
    f, s = r.choice(cands)
    a = r.randint(s["d"], 2)
    c = r.choice(["none", "none", "k1"])
    c2 = c if s["ctx"] == "inherit" else "none" if s["ctx"] == "clear" else s["ctx"]
    ops = []
    for p_ in r.sample([0.004, 0.01, 0.03, 0.08, 0.2], 3):
        ops += [{"op": "ForgetAll", "f": g} for g in range(1, len(prog) + 1)]
        calls = [[f, a, c], [s["g"], a - s["d"], c2]]
        if r.random() < 0.5:
            calls.reverse()
        ops.append({"op": "Par", "calls": calls, "sched": {"random": r.randrange(1 << 30), "p": p_}})
    return ops


def mixed_state_batch(r, nfn):
    """Directed: one batch whose elements are in different states for THIS backend object - memoized on disk by an earlier object
    and not cached here, cached here, not memoized at all - in every order, with duplicates"""
    f = r.randint(1, nfn)
    c = "none"
    if r.random() < 0.7:          # one element in each state
        sts = ["disk", "cached", "new"]
        r.shuffle(sts)
        state = dict(zip((0, 1, 2), sts))
    else:
        state = {a: r.choice(["disk", "cached", "new", "disk+cached"]) for a in (0, 1, 2)}
    ops = [{"op": "Forget", "f": f, "a": a, "c": c} for a in (0, 1, 2) if state[a] in ("new", "cached")]
    ops += [{"op": "Call", "f": f, "a": a, "c": c, "mod": "normal"} for a in (0, 1, 2) if state[a].startswith("disk")]
    ops.append({"op": "Reopen"})
    ops += [{"op": "Call", "f": f, "a": a, "c": c, "mod": "normal"} for a in (0, 1, 2) if state[a].endswith("cached")]
    args = [0, 1, 2]
    r.shuffle(args)
    if r.random() < 0.4:
        args.insert(r.randint(0, 3), r.choice(args))
    ops.append({"op": "Batch", "f": f, "args": args, "c": c, "rf": r.random() < 0.5, "how": r.choice(["call_batch", "call_batch", "map"])})
    if ops[-1]["how"] == "map":
        ops[-1]["rf"] = True
    ops.append({"op": "Batch", "f": f, "args": args, "c": c, "rf": ops[-1]["rf"], "how": "call_batch"})
    return ops


def mech_jobs(r, n):
    """programs and root histories inside the vocabulary of Runner.tla (plain calls, batches, forgets) whose internal events
    are recorded for mechanism-level trace validation"""
    jobs = []
    for i in range(n):
        nfn = r.choice([2, 3, 3, 4])
        p = progs.random_prog(r, nfn=nfn, features=("call", "call", "batch", "res", "raise", "bad") + (("mods",) if i % 2 else ()))
        ops = []
        for o in progs.random_ops(r, nfn, r.randint(4, 8), ctx=True, batch=True):
            if o["op"] == "Call":
                o["mod"] = "normal"
            if o["op"] == "Batch":
                o["mod"] = "normal"
            if o["op"] == "Batch" and o["how"] != "call_batch":
                o["how"], o["rf"] = "map", True
            ops.append(o)
        jobs.append({"prog": p, "cfg": dict(BACKENDS[i % len(BACKENDS)]), "ops": ops, "amax": 2, "mech": True})
    return jobs


def ext_jobs(r, n):
    """beyond the listed properties: histories with Memento.forget_exceptions_recursively() over programs in which calls fail
    (and are caught or not) at several levels"""
    jobs = []
    for i in range(n):
        nfn = r.choice([2, 3, 3, 4])
        p = progs.random_prog(r, nfn=nfn, features=("call", "call", "batch", "raise", "raise"))
        ops = progs.random_ops(r, nfn, r.randint(6, 10), ctx=(i % 2 == 0), batch=True, fexc=0.3)
        ops2 = []
        for o in ops:
            if o["op"] == "Call":
                o["mod"] = "normal"
            ops2.append(o)
            if o["op"] == "Call" and r.random() < 0.6:       # right after a call (it may have failed): forget its failures, call again
                ops2.append({"op": "ForgetExc", "f": o["f"], "a": o["a"], "c": o["c"]})
                if r.random() < 0.5:
                    ops2.append(dict(o))
        jobs.append({"prog": p, "cfg": dict(BACKENDS[i % len(BACKENDS)]), "ops": ops2, "amax": 2})
    return jobs


def validate_ext(rep, jobs, traces, wd, as_violation=False):
    payload = [{"cfg": {"prog": t["cfg"]["prog"], "prop": "EXT", "store": "real", "runner": "local"}, "ev": t["ev"]} for t in traces]
    rej, vr = tlc.validate_traces("TraceRunner", payload, wd, timeout=2400)
    rep.add_tlc(vr, "trace validation TraceRunner (forget_exceptions_recursively, beyond the listed properties)")
    rep.cov["ext_histories"] = len(payload)
    rep.cov["ext_forget_exceptions_events"] = sum(1 for t in traces for e in t["ev"] if e["op"] == "ForgetExc")
    eff = 0
    for t in traces:
        prev = 0
        for e in t["ev"]:
            if e["op"] == "ForgetExc" and len(e.get("mem", [])) < prev:
                eff += 1
            prev = len(e.get("mem", []))
    rep.cov["ext_forget_exceptions_events_that_forgot_something"] = eff
    rep.cov["ext_nonconformances"] = len(rej)
    if rej and as_violation:
        # C02: "forgetting a call makes exactly that call run again" - forget_exceptions_recursively forgets exactly the failed
        # calls beneath a failed call
        for rj in rej:
            t = traces[rj["tid"] - 1]
            e = t["ev"][rj["prefix"]] if rj["prefix"] < len(t["ev"]) else {}
            facts = {"property": "C02", "op": e.get("op"), "mod": "", "why": sorted(rj["why"]), "backend": t["cfg"]["backend"].get("backend"),
                     "exc": e.get("exc", "")[:120], "out": ""}
            rep.violation(facts, {"job": jobs[rj["tid"] - 1], "accepted_prefix": rj["prefix"],
                                  "failing_event": {k: v for k, v in e.items() if k != "mem"}, "mem": e.get("mem"),
                                  "failed_clauses": sorted(rj["why"])})
        return
    if rej:
        print("NONCONFORMANCE: %d of %d histories with forget_exceptions_recursively() diverge from ProgSem.ExcClosure (informational)"
              % (len(rej), len(payload)))
        for rj in rej[:3]:
            t = traces[rj["tid"] - 1]
            e = t["ev"][rj["prefix"]] if rj["prefix"] < len(t["ev"]) else {}
            print("  why=%s op=%s f=%s a=%s c=%s exc=%s" % (sorted(rj["why"]), e.get("op"), e.get("f"), e.get("a"), e.get("c"), e.get("exc", "")[:100]))
        rep.cov["nonconformances"] = rep.cov.get("nonconformances", 0) + len(rej)


def validate_mech(rep, jobs, traces, wd):
    payload = [{"cfg": {"prog": t["cfg"]["prog"]}, "ev": [e for ev in t["ev"] for e in ev.get("mech", [])]} for t in traces]
    rej, vr = tlc.validate_traces("TraceRunnerMech", payload, wd, timeout=2400)
    rep.add_tlc(vr, "mechanism trace validation TraceRunnerMech (recorded runner events are behaviours of Runner.tla)")
    rep.cov["mechanism_traces"] = len(payload)
    rep.cov["mechanism_events"] = sum(len(p["ev"]) for p in payload)
    rep.cov["nonconformances"] = len(rej)
    if rej:
        print("NONCONFORMANCE: %d of %d recorded runs are not behaviours of Runner.tla (informational)" % (len(rej), len(payload)))
        notes = []
        for rj in rej[:5]:
            evs = payload[rj["tid"] - 1]["ev"]
            notes.append({"explained": rj["prefix"], "of": len(evs), "around": evs[max(0, rj["prefix"] - 3):rj["prefix"] + 2],
                          "prog": payload[rj["tid"] - 1]["cfg"]["prog"]})
            print("  explained=%d/%d around=%s" % (rj["prefix"], len(evs), json.dumps(evs[max(0, rj["prefix"] - 3):rj["prefix"] + 2])[:500]))
        rep.cov["nonconformance_notes"] = notes


def null_jobs(r, n):
    jobs = []
    for i in range(n):
        nfn = r.choice([2, 3])
        p = progs.random_prog(r, nfn=nfn)
        ops = [o for o in progs.random_ops(r, nfn, 5, ctx=False) if o["op"] in ("Call", "Batch")]
        for o in ops:      # force_local() replaces the configured runner by design: not a call "through the null runner"
            if o.get("mod") == "local":
                o["mod"] = "normal"
        if i % 2 == 0:
            cfg = {"backend": "null", "budget": 0}
        else:
            cfg = {"backend": "fs", "budget": 0, "runner": "null"}
        jobs.append({"prog": p, "cfg": cfg, "ops": ops, "amax": 2})
    return jobs


def validate(rep, prop, jobs, traces, wd, tag):
    payload = []
    for t in traces:
        b = t["cfg"]["backend"]
        payload.append({"cfg": {"prog": t["cfg"]["prog"], "prop": prop,
                                "store": "null" if b.get("backend") == "null" else "real",
                                "runner": "null" if b.get("runner") == "null" else "local"},
                        "ev": t["ev"]})
    rej, vr = tlc.validate_traces("TraceRunner", payload, wd, timeout=2400)
    rep.add_tlc(vr, "trace validation TraceRunner (%s, clauses of %s)" % (tag, prop))
    for rj in rej:
        t = traces[rj["tid"] - 1]
        e = t["ev"][rj["prefix"]] if rj["prefix"] < len(t["ev"]) else {}
        facts = {"property": prop, "op": e.get("op"), "mod": e.get("mod", ""), "why": sorted(rj["why"]),
                 "backend": t["cfg"]["backend"].get("backend"), "exc": e.get("exc", "")[:120],
                 "out": json.dumps(e.get("out"))[:120]}
        rep.violation(facts, {"job": jobs[rj["tid"] - 1], "accepted_prefix": rj["prefix"],
                              "failing_event": {k: v for k, v in e.items() if k != "mem"},
                              "mem": e.get("mem"), "failed_clauses": sorted(rj["why"])})
    return len(payload)


def run(prop, tier):
    rep = Report(prop, tier)
    quick = tier == "quick"
    r = rng(prop)
    with Scratch(prop) as wd:
        mc = tlc.model_check("MCRunner", "Runner_quick.cfg" if quick else "Runner_thorough.cfg", wd,
                             timeout=600 if quick else 7200)
        rep.add_tlc(mc, "exhaustive: Runner.tla (call stack, batch pre-check, propagation, context) refines ProgSem/RunnerMon")
        common.tick("model check done")
        n = 180 if quick else 2500
        jobs = make_jobs(prop, r, n, quick)
        traces = common.run_jobs("runner_worker.py", jobs, wd, timeout=2400)
        common.tick("executed %d programs" % len(traces))
        nval = validate(rep, prop, jobs, traces, wd, "programs")
        rep.cov["traces_validated_against_impl"] = nval
        rep.cov["evaluations"] = sum(len(t["ev"]) for t in traces)
        rep.cov["programs"] = len(jobs)
        rep.cov["distinct_nontrivial"] = len({json.dumps(j["prog"]) + json.dumps(j["ops"]) for j in jobs})
        rep.cov["rule"] = ("random well-founded programs (2-4 memento functions, <=3 steps each: nested calls with context "
                           "overrides, batches with duplicates/failing elements, resources, raises) x random root histories "
                           "(calls with modifiers and context, call_batch / map_over_range, forget, forget_all; C02/C10: in a third of the "
                           "histories also 2-3 root calls made at the same time by different threads under a seeded schedule of the "
                           "deterministic thread scheduler) x "
                           "{filesystem, filesystem+cache, memory}; one evaluation = one root operation with the full memento "
                           "projection afterwards")
        rep.sample({"prog": jobs[0]["prog"], "ops": jobs[0]["ops"][:4],
                    "events": [{k: v for k, v in e.items() if k != "mem"} for e in traces[0]["ev"][:4]]})
        if prop in ("C10", "C02"):
            mj = mech_jobs(r, 60 if quick else 600)
            mt = common.run_jobs("runner_worker.py", mj, wd, timeout=2400)
            validate_mech(rep, mj, mt, wd)
        if prop == "C10":
            xj = ext_jobs(r, 40 if quick else 500)
            xt = common.run_jobs("runner_worker.py", xj, wd, timeout=2400)
            validate_ext(rep, xj, xt, wd)
        if prop == "C02":
            xj = ext_jobs(r, 40 if quick else 500)
            xt = common.run_jobs("runner_worker.py", xj, wd, timeout=2400)
            validate_ext(rep, xj, xt, wd, as_violation=True)
            run_values(rep, r, wd, quick)
        rep.assumptions += ["the reference semantics ProgSem.tla is the definition of 'what the program does'; generated bodies "
                            "are deterministic functions of their arguments and sub-results"]
    return rep.finish()


def run_values(rep, r, wd, quick):
    """C02 value domain: every term of the result universe x backend x modifier, behaviour
    Call, Call, Memento, Forget, Call, Call validated against TransparentMon."""
    from . import values
    uni = values.universe(r, nested=(60 if quick else 800)) + values.EXCEPTIONS + values.override_terms()
    cfgs = [{"backend": "fs", "budget": 0}, {"backend": "fs", "budget": 65536}, {"backend": "fs", "budget": 200},
            {"backend": "memory", "budget": 0}]
    mods = ["normal", "ignore", "local"]
    jobs = []
    for i, term in enumerate(uni):
        combos = [(c, m_) for c in cfgs for m_ in mods]
        if quick:      # stratified: every term on 3 of the 12 (backend, modifier) combinations
            combos = [combos[(i + j * 5) % len(combos)] for j in range(3)]
        if term["t"] in ("nd", "index", "series", "frame", "partition"):
            # results the cache can only hold weakly: a budget every one of them exceeds, the caller keeps the value
            tiny = {"backend": "fs", "budget": 64}
            combos = combos + ([(tiny, m_) for m_ in mods] if not quick else [(tiny, mods[i % 3])])
        for j, (c, m_) in enumerate(combos):
            ops = ["Call", "Call", "Memento", "Forget", "Call", "Call", "Memento"]
            if c.get("budget") == 64 or (i + j) % 4 == 3:
                ops = ["Call", "Forget", "Call", "Call", "Memento", "Forget", "Forget", "Call"]     # forget straight after the first call
            if (i + j) % 3 == 1 or (c.get("budget") == 64 and i % 2 == 0):
                ops = [("ForgetAll" if o == "Forget" else o) for o in ops]
            if term.get("cls") == "LazyErr":
                ops = ["Call", "Unload", "Call", "Unload", "Call", "Memento", "Forget", "Call", "Unload", "Call"]
            if term["t"] == "ovr":
                # (the key is occupied by another call's result before this call publishes its own, and again later)
                ops = ["Disturb", "Call", "Call", "Reopen", "Call", "Memento", "Forget", "Disturb", "Call", "Reopen", "Call", "Disturb", "Call"]
            jobs.append({"term": term, "cfg": dict(c, mod=m_), "ops": ops})
    traces = common.run_jobs("values_worker.py", jobs, wd, timeout=2400)
    payload = [{"cfg": values.mon_cfg(t["term"], t["cfg"]["mod"]), "ev": t["ev"]} for t in traces]
    rej, vr = tlc.validate_traces("TraceTransparent", payload, wd, timeout=1500)
    rep.add_tlc(vr, "trace validation TraceTransparent (value domain)")
    rep.cov["traces_validated_against_impl"] += len(payload)
    rep.cov["evaluations"] += sum(len(t["ev"]) for t in traces)
    rep.cov["value_terms"] = len(uni)
    rep.cov["value_jobs"] = len(jobs)
    rep.sample({"term": traces[0]["term"], "cfg": traces[0]["cfg"], "events": traces[0]["ev"]})
    for rj in rej:
        t = traces[rj["tid"] - 1]
        e = t["ev"][rj["prefix"]] if rj["prefix"] < len(t["ev"]) else {}
        facts = {"property": "C02", "domain": "values", "tag": t["term"]["t"], "cls": t["term"].get("cls", ""),
                 "override_key": t["term"].get("key", ""),
                 "pkind": t["term"].get("kind", "") if t["term"]["t"] == "partition" else "",
                 "backend": t["cfg"]["backend"], "budget": t["cfg"].get("budget", 0), "mod": t["cfg"]["mod"],
                 "op": e.get("op"), "step": rj["prefix"] + 1, "why": sorted(rj["why"]), "excls": e.get("excls", ""),
                 "detail": e.get("detail", "")[:160]}
        rep.violation(facts, {"job": jobs[rj["tid"] - 1], "events": t["ev"], "failed_clauses": sorted(rj["why"])})


def run_c19_functions(rep, r, wd, quick):
    """null storage / null runner at function level (called from check_store for C19)."""
    jobs = null_jobs(r, 30 if quick else 400)
    traces = common.run_jobs("runner_worker.py", jobs, wd, timeout=1200)
    return validate(rep, "C19", jobs, traces, wd, "null storage / null runner"), sum(len(t["ev"]) for t in traces)
